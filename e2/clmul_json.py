import json
import sys

from . import clmul

if __name__ == "__main__":
    res = clmul.run(open(sys.argv[1]).read(), int(sys.argv[2]) if len(sys.argv) > 2 else 120000, sys.argv[3] if len(sys.argv) > 3 else None)
    for r in res:
        for f in r.get("failed", []):
            if not isinstance(f.get("model"), dict):
                f["model"] = str(f.get("model"))
    print(json.dumps(res))
