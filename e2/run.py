"""Runner glue for the E2 (MIR -> SMT) queries: dump the MIR of the scratch copy with the
nightly toolchain, run the query sets, attach native replay tests to counterexamples."""
import os
import subprocess
import time

VERIF = os.path.dirname(os.path.dirname(os.path.abspath(__file__)))
PY = "/opt/veriftools/pyvenv/bin/python3"


def dump_mir(scratch, cache):
    env = dict(os.environ, CARGO_NET_OFFLINE="true", CARGO_TARGET_DIR=os.path.join(cache, "td-mir"))
    env.pop("RUSTFLAGS", None)
    # touch so that rustc re-emits the MIR even if nothing changed
    os.utime(os.path.join(scratch, "src/lib.rs"))
    p = subprocess.run(
        "cargo +nightly rustc --offline --lib -- -Zunpretty=mir -C debug-assertions=off -C overflow-checks=on",
        shell=True, cwd=scratch, env=env, text=True, capture_output=True, timeout=1800,
    )
    if p.returncode != 0 or len(p.stdout) < 1000:
        raise RuntimeError("MIR dump failed: " + p.stderr[-1500:])
    return p.stdout


REF = """
    fn ref64(x: u64, y: u64) -> u128 { let mut r = 0u128; for i in 0..64 { if (x >> i) & 1 == 1 { r ^= (y as u128) << i; } } r }
    fn ref128(a: u128, b: u128) -> (u128, u128) { let (mut lo, mut hi) = (0u128, 0u128); for i in 0..128u32 { if (a >> i) & 1 == 1 { lo ^= b << i; if i > 0 { hi ^= b >> (128 - i); } } } (lo, hi) }
"""


def c20_queries(scratch, tier, seed, logdir):
    import json

    from runner import kani

    t0 = time.time()
    dump = dump_mir(scratch, kani.CACHE)
    os.makedirs(logdir, exist_ok=True)
    dp = os.path.join(logdir, "dump.mir")
    open(dp, "w").write(dump)
    to = 600000 if tier == "thorough" else 120000
    args = [PY, "-m", "e2.clmul_json", dp, str(to)]
    args.append(logdir)  # export every query and ask a second solver (z3-new 5.x; cvc5 for the Boolean ones)
    p = subprocess.run(args, cwd=VERIF, text=True, capture_output=True, timeout=7200)
    if p.returncode != 0:
        raise RuntimeError("e2.clmul failed: " + p.stderr[-1500:])
    results = json.loads(p.stdout)
    for r in results:
        r["wall_s"] = round(r.get("wall_s", 0), 1)
        for f in r.get("failed", []):
            m = f.get("model")
            if isinstance(m, dict) and "x" in m:
                f["replay_test"] = dict(file="src/block/gf128.rs", name="__verif_replay_clmul64",
                    code="#[cfg(test)]\nmod __verif_replay_e2 {" + REF + f"\n    #[test]\n    fn __verif_replay_clmul64() {{ let (x, y) = ({m['x']}u64, {m['y']}u64); assert_eq!(super::scalar::clmul64(x, y), ref64(x, y)); }}\n}}\n")
            elif isinstance(m, dict) and "a" in m:
                f["replay_test"] = dict(file="src/block/gf128.rs", name="__verif_replay_clmul128",
                    code="#[cfg(test)]\nmod __verif_replay_e2 {" + REF + f"\n    #[test]\n    fn __verif_replay_clmul128() {{ let (a, b) = ({m['a']}u128, {m['b']}u128); assert_eq!(super::scalar::clmul128(a, b), ref128(a, b)); }}\n}}\n")
    return results
