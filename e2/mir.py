"""E2: translate loop-free integer MIR (rustc nightly, -Zunpretty=mir) to z3 bit-vector terms.

Supported fragment (everything else raises Unsupported -> the query is reported inconclusive,
never as a pass): straight-line bodies (basic blocks chained by goto / assert-success /
call-return edges), integer locals, tuples of integers, BinOps BitAnd BitOr BitXor Shl Shr Add
Sub Mul Lt Le Gt Ge Eq Ne, the *WithOverflow forms (value, overflow-flag), IntToInt casts, Not,
named constants defined by other bodies of the dump, calls to functions of the dump (inlined or
replaced by a caller-supplied abstraction), `assert(..)` terminators (collected as proof
obligations: overflow / shift range).
"""
import re
import z3


class Unsupported(Exception):
    pass


INT_TY = {"u8": 8, "u16": 16, "u32": 32, "u64": 64, "u128": 128, "usize": 64, "i8": 8, "i16": 16, "i32": 32, "i64": 64, "i128": 128, "isize": 64, "bool": 1}
SIGNED = {"i8", "i16", "i32", "i64", "i128", "isize"}


class Body:
    def __init__(self, name, header, text):
        self.name = name
        self.header = header
        self.text = text
        self.args = []  # [(local, ty)]
        self.ret = None
        self.locals = {}
        self.blocks = {}
        self._parse()

    def _parse(self):
        m = re.match(r"fn\s+(\S+?)\((.*)\)\s*->\s*(.+?)\s*\{$", self.header)
        if m:
            for a in [x for x in split_top(m.group(2)) if x.strip()]:
                am = re.match(r"(?:mut )?(_\d+): (.+)", a.strip())
                if not am:
                    self.args = None  # not a body of the supported fragment
                    break
                self.args.append((am.group(1), am.group(2)))
                self.locals[am.group(1)] = am.group(2)
            self.ret = m.group(3)
        else:
            m = re.match(r"(?:const\s+)?(.+?): ([^:=]+?) = \{$", self.header)
            if m:
                self.ret = m.group(2)
        for lm in re.finditer(r"^\s*let\s+(?:mut\s+)?(_\d+):\s*(.+);$", self.text, re.M):
            self.locals[lm.group(1)] = lm.group(2)
        for bm in re.finditer(r"^\s*(bb\d+)(?: \(cleanup\))?: \{\n(.*?)^\s*\}$", self.text, re.M | re.S):
            stmts = [s.strip() for s in bm.group(2).split("\n") if s.strip()]
            self.blocks[bm.group(1)] = stmts


def parse_dump(text):
    """-> {name: Body}, {const name: literal (value, ty)}"""
    bodies = {}
    consts = {}
    for m in re.finditer(r"^const (\S+): (\w+) = const (-?\d+)_(\w+);$", text, re.M):
        consts[m.group(1)] = (int(m.group(3)), m.group(2))
    # bodies start at column 0 with `fn ` or `<path>: <ty> = {` / `const <path>: <ty> = {`
    for m in re.finditer(r"^((?:fn |const )?[^\s/][^\n]*\{)\n(.*?)^\}$", text, re.M | re.S):
        header = m.group(1)
        hm = re.match(r"fn\s+(\S+?)\(", header)
        if hm:
            name = hm.group(1)
        else:
            hm = re.match(r"(?:const\s+)?(.+?): ([^:=]+?) = \{$", header)
            if not hm:
                continue
            name = hm.group(1)
        bodies[name] = Body(name, header, m.group(2))
    return bodies, consts


class Eval:
    def __init__(self, bodies, consts, abstractions=None, mul_hook=None):
        self.bodies = bodies
        self.consts = consts
        self.abstractions = abstractions or {}
        self.mul_hook = mul_hook  # f(lhs, rhs, width) -> (value, overflow) or None
        self.obligations = []  # (description, z3 bool that must hold)
        self.side_constraints = []
        self._const_cache = {}

    # ---------------------------------------------------------------- names
    def resolve(self, name):
        """find a body/const whose path ends with the (possibly crate-qualified) name"""
        cands = [name]
        parts = name.split("::")
        for i in range(1, len(parts)):
            cands.append("::".join(parts[i:]))
        for c in cands:
            if c in self.consts:
                return ("lit", c)
            if c in self.bodies:
                return ("body", c)
        # suffix match
        for k in list(self.consts):
            if name.endswith("::" + k) or k.endswith("::" + parts[-1]) and k.split("::")[-1] == parts[-1] and len(parts) == 1:
                return ("lit", k)
        hits = [k for k in self.bodies if k.split("::")[-2:] == parts[-2:]]
        if len(hits) == 1:
            return ("body", hits[0])
        hits = [k for k in self.consts if k.split("::")[-2:] == parts[-2:] or k.split("::")[-1] == parts[-1]]
        if len(hits) == 1:
            return ("lit", hits[0])
        hits = [k for k in self.bodies if k.split("::")[-1] == parts[-1]]
        if len(hits) == 1:
            return ("body", hits[0])
        raise Unsupported(f"cannot resolve {name}")

    def const_value(self, name):
        if name in self._const_cache:
            return self._const_cache[name]
        kind, key = self.resolve(name)
        if kind == "lit":
            v, ty = self.consts[key]
            r = z3.BitVecVal(v, INT_TY[ty])
        else:
            r = self.run(key, [])
        self._const_cache[name] = r
        return r

    # ---------------------------------------------------------------- operands
    def operand(self, env, b, s):
        s = s.strip()
        neg = False
        if s.startswith("!"):
            neg = True
            s = s[1:].strip()
        if s.startswith("move ") or s.startswith("copy "):
            s = s[5:].strip()
        m = re.match(r"^\((_\d+)\.(\d+): [^)]+\)$", s)
        if m:
            v = env[m.group(1)][int(m.group(2))]
        elif re.match(r"^_\d+$", s):
            v = env[s]
        elif s.startswith("const "):
            c = s[6:].strip()
            m = re.match(r"^(-?\d+)_(\w+)$", c)
            if m:
                v = z3.BitVecVal(int(m.group(1)), INT_TY[m.group(2)])
            elif c in ("true", "false"):
                v = z3.BitVecVal(1 if c == "true" else 0, 1)
            else:
                v = self.const_value(c)
        else:
            raise Unsupported(f"operand {s!r}")
        if neg:
            v = ~v
        return v

    def width_of(self, b, local):
        ty = b.locals.get(local)
        if ty in INT_TY:
            return INT_TY[ty]
        return None

    # ---------------------------------------------------------------- rvalues
    def rvalue(self, env, b, dst, rhs):
        rhs = rhs.strip()
        m = re.match(r"^(\w+)\((.*)\)$", rhs)
        if m and m.group(1) in ("BitAnd", "BitOr", "BitXor", "Shl", "Shr", "Add", "Sub", "Mul", "Lt", "Le", "Gt", "Ge", "Eq", "Ne", "AddWithOverflow", "SubWithOverflow", "MulWithOverflow", "AddUnchecked", "SubUnchecked", "MulUnchecked", "ShlUnchecked", "ShrUnchecked"):
            op = m.group(1)
            a_s, b_s = split_top(m.group(2))
            x = self.operand(env, b, a_s)
            y = self.operand(env, b, b_s)
            return self.binop(b, dst, op, x, y, a_s)
        m = re.match(r"^Not\((.*)\)$", rhs)
        if m:
            return ~self.operand(env, b, m.group(1))
        m = re.match(r"^(.*) as (\w+) \(IntToInt\)$", rhs)
        if m:
            v = self.operand(env, b, m.group(1))
            tw = INT_TY[m.group(2)]
            sw = v.size()
            src = m.group(1).strip()
            src_local = re.sub(r"^(move|copy) ", "", src)
            signed = b.locals.get(src_local) in SIGNED or bool(re.search(r"_i(8|16|32|64|128|size)$", src))
            if tw == sw:
                return v
            if tw < sw:
                return z3.Extract(tw - 1, 0, v)
            return z3.SignExt(tw - sw, v) if signed else z3.ZeroExt(tw - sw, v)
        if rhs.startswith("(") and rhs.endswith(")") and not re.match(r"^\(_\d+\.\d+:", rhs):
            parts = split_top(rhs[1:-1])
            return tuple(self.operand(env, b, p) for p in parts)
        return self.operand(env, b, rhs)

    def binop(self, b, dst, op, x, y, a_s):
        if op in ("Shl", "Shr", "ShlUnchecked", "ShrUnchecked"):
            if y.size() < x.size():
                y = z3.ZeroExt(x.size() - y.size(), y)
            elif y.size() > x.size():
                y = z3.Extract(x.size() - 1, 0, y)
            if op.startswith("Shl"):
                return x << y
            src = re.sub(r"^(move|copy) ", "", a_s.strip())
            if b.locals.get(src) in SIGNED:
                return x >> y
            return z3.LShR(x, y)
        if x.size() != y.size():
            raise Unsupported(f"width mismatch in {op}")
        w = x.size()
        if op == "BitAnd":
            return x & y
        if op == "BitOr":
            return x | y
        if op == "BitXor":
            return x ^ y
        if op in ("Add", "AddUnchecked"):
            return x + y
        if op in ("Sub", "SubUnchecked"):
            return x - y
        if op in ("Mul", "MulUnchecked"):
            if self.mul_hook:
                r = self.mul_hook(x, y, w)
                if r is not None:
                    return r[0]
            return x * y
        b1 = lambda c: z3.If(c, z3.BitVecVal(1, 1), z3.BitVecVal(0, 1))  # noqa: E731
        if op == "Lt":
            return b1(z3.ULT(x, y))
        if op == "Le":
            return b1(z3.ULE(x, y))
        if op == "Gt":
            return b1(z3.UGT(x, y))
        if op == "Ge":
            return b1(z3.UGE(x, y))
        if op == "Eq":
            return b1(x == y)
        if op == "Ne":
            return b1(x != y)
        if op == "AddWithOverflow":
            r = z3.ZeroExt(1, x) + z3.ZeroExt(1, y)
            return (z3.Extract(w - 1, 0, r), z3.Extract(w, w, r))
        if op == "SubWithOverflow":
            return (x - y, b1(z3.ULT(x, y)))
        if op == "MulWithOverflow":
            if self.mul_hook:
                r = self.mul_hook(x, y, w)
                if r is not None:
                    return r
            wide = z3.ZeroExt(w, x) * z3.ZeroExt(w, y)
            return (z3.Extract(w - 1, 0, wide), b1(z3.Extract(2 * w - 1, w, wide) != 0))
        raise Unsupported(op)

    def concrete(self, v):
        if hasattr(v, "is_const"):
            return v.value() if v.is_const() else None
        s = z3.simplify(v)
        return s.as_long() if z3.is_bv_value(s) else None

    # ---------------------------------------------------------------- bodies
    def run(self, name, args):
        b = self.bodies[name]
        env = {}
        if b.args is None or len(args) != len(b.args):
            raise Unsupported(f"arity of {name}")
        for (loc, ty), v in zip(b.args, args):
            env[loc] = v
        cur = "bb0"
        steps = 0
        while True:
            steps += 1
            if steps > 10000:
                raise Unsupported("block chain too long (loop?)")
            stmts = b.blocks.get(cur)
            if stmts is None:
                raise Unsupported(f"{name}: no block {cur}")
            nxt = None
            for s in stmts:
                if s.startswith("StorageLive") or s.startswith("StorageDead") or s.startswith("nop") or s.startswith("//") or s.startswith("FakeRead") or s.startswith("PlaceMention"):
                    continue
                if s == "return;":
                    return env["_0"]
                m = re.match(r"^goto -> (bb\d+);$", s)
                if m:
                    nxt = m.group(1)
                    break
                m = re.match(r"^switchInt\((.*?)\) -> \[(.*)\];$", s)
                if m:
                    cond = self.operand(env, b, m.group(1))
                    cv = self.concrete(cond)
                    if cv is None:
                        raise Unsupported(f"{name}: switchInt on a symbolic value")
                    targets = {}
                    other = None
                    for part in split_top(m.group(2)):
                        k, v = part.split(":")
                        if k.strip() == "otherwise":
                            other = v.strip()
                        else:
                            targets[int(re.sub(r"_\w+$", "", k.strip()))] = v.strip()
                    nxt = targets.get(cv, other)
                    break
                m = re.match(r"^assert\((.*?), \"(.*?)\".*\) -> \[success: (bb\d+).*\];$", s)
                if m:
                    cond = self.operand(env, b, m.group(1))
                    self.obligations.append((f"{name}: {m.group(2)}", cond == 1))
                    nxt = m.group(3)
                    break
                m = re.match(r"^(_\d+) = (\S+?)\((.*)\) -> \[return: (bb\d+).*\];$", s)
                if m and not re.match(r"^(BitAnd|BitOr|BitXor|Shl|Shr|Add|Sub|Mul|Lt|Le|Gt|Ge|Eq|Ne|Not|\w+WithOverflow)$", m.group(2)):
                    callee = m.group(2)
                    cargs = [self.operand(env, b, a) for a in split_top(m.group(3))] if m.group(3).strip() else []
                    short = callee.split("::")[-1]
                    if short in self.abstractions:
                        env[m.group(1)] = self.abstractions[short](self, cargs)
                    else:
                        kind, key = self.resolve(callee)
                        if kind != "body":
                            raise Unsupported(f"call to {callee}")
                        env[m.group(1)] = self.run(key, cargs)
                    nxt = m.group(4)
                    break
                m = re.match(r"^(_\d+) = (.*);$", s)
                if m:
                    env[m.group(1)] = self.rvalue(env, b, m.group(1), m.group(2))
                    continue
                raise Unsupported(f"{name}: statement {s!r}")
            if nxt is None:
                raise Unsupported(f"{name}: block {cur} has no supported terminator")
            cur = nxt


def split_top(s):
    parts, depth, cur = [], 0, ""
    for ch in s:
        if ch in "([{":
            depth += 1
        elif ch in ")]}":
            depth -= 1
        if ch == "," and depth == 0:
            parts.append(cur.strip())
            cur = ""
        else:
            cur += ch
    if cur.strip():
        parts.append(cur.strip())
    return parts
