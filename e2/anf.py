"""Bit-level encoding for GF(2)-linear kernels: every bit of every MIR value is kept in algebraic
normal form (XOR of monomials, monomial = AND of <= 4 input bits).  XOR chains are thereby
flattened, sorted and cancelled by the *encoder*; the per-bit equalities are then handed to z3,
which decides them (and produces the counterexample when they differ).  Operations outside the
fragment (AND/OR of two non-constant values that would exceed degree 2, arithmetic) raise
Unsupported -> inconclusive."""
import re

import z3

from .mir import INT_TY, SIGNED, Eval, Unsupported, split_top

ONE = frozenset()  # the empty monomial = constant 1


class BV:
    __slots__ = ("bits",)

    def __init__(self, bits):
        self.bits = bits  # list (LSB first) of frozenset(monomials)

    def size(self):
        return len(self.bits)

    @staticmethod
    def const(v, w):
        return BV([frozenset([ONE]) if (v >> i) & 1 else frozenset() for i in range(w)])

    @staticmethod
    def var(name, w):
        return BV([frozenset([frozenset([f"{name}{i}"])]) for i in range(w)])

    def is_const(self):
        return all(b in (frozenset(), frozenset([ONE])) for b in self.bits)

    def value(self):
        return sum(1 << i for i, b in enumerate(self.bits) if b == frozenset([ONE]))


def bxor(a, b):
    return a ^ b


def band(a, b):
    if not a or not b:
        return frozenset()
    out = set()
    for m1 in a:
        for m2 in b:
            m = m1 | m2
            if len(m) > 4:
                raise Unsupported("degree > 4")
            out ^= {m}
        if len(out) > 50000:
            raise Unsupported("more than 50000 monomials in one bit")
    return frozenset(out)


def bor(a, b):
    # a | b = a ^ b ^ ab
    return a ^ b ^ band(a, b)


class Fork(Exception):
    """A comparison of input bits with a constant decides a branch: the driver re-runs the
    function once with those input bits fixed (comparison true) and once with the comparison
    assumed false (recorded as a solver constraint)."""

    def __init__(self, cmp):
        super().__init__("fork")
        self.cmp = cmp  # tuple of (var name, wanted bit)


class AnfEval(Eval):
    def __init__(self, bodies, consts, abstractions=None, mul_hook=None, assumed_false=()):
        super().__init__(bodies, consts, abstractions, mul_hook)
        self.assumed_false = set(assumed_false)

    def const_value(self, name):
        if name in self._const_cache:
            return self._const_cache[name]
        kind, key = self.resolve(name)
        if kind == "lit":
            v, ty = self.consts[key]
            r = BV.const(v, INT_TY[ty])
        else:
            r = self.run(key, [])
        self._const_cache[name] = r
        return r

    def operand(self, env, b, s):
        s = s.strip()
        neg = False
        if s.startswith("!"):
            neg = True
            s = s[1:].strip()
        if s.startswith("move ") or s.startswith("copy "):
            s = s[5:].strip()
        m = re.match(r"^\((_\d+)\.(\d+): [^)]+\)$", s)
        if m:
            v = env[m.group(1)][int(m.group(2))]
        elif re.match(r"^_\d+$", s):
            v = env[s]
        elif s.startswith("const "):
            c = s[6:].strip()
            m = re.match(r"^(-?\d+)_(\w+)$", c)
            if m:
                w = INT_TY[m.group(2)]
                v = BV.const(int(m.group(1)) & ((1 << w) - 1), w)
            elif c in ("true", "false"):
                v = BV.const(1 if c == "true" else 0, 1)
            else:
                v = self.const_value(c)
        else:
            raise Unsupported(f"operand {s!r}")
        if neg:
            v = BV([bit ^ frozenset([ONE]) for bit in v.bits])
        return v

    def rvalue(self, env, b, dst, rhs):
        rhs = rhs.strip()
        m = re.match(r"^(.*) as (\w+) \(IntToInt\)$", rhs)
        if m:
            v = self.operand(env, b, m.group(1))
            tw = INT_TY[m.group(2)]
            if tw <= v.size():
                return BV(v.bits[:tw])
            src = re.sub(r"^(move|copy) ", "", m.group(1).strip())
            if b.locals.get(src) in SIGNED or re.search(r"_i(8|16|32|64|128|size)$", src):
                if v.is_const() and not (v.value() >> (v.size() - 1)) & 1:
                    return BV(v.bits + [frozenset()] * (tw - v.size()))
                raise Unsupported("sign extension of a symbolic value")
            return BV(v.bits + [frozenset()] * (tw - v.size()))
        m = re.match(r"^Not\((.*)\)$", rhs)
        if m:
            v = self.operand(env, b, m.group(1))
            return BV([bit ^ frozenset([ONE]) for bit in v.bits])
        return super().rvalue(env, b, dst, rhs)

    def binop(self, b, dst, op, x, y, a_s):
        w = x.size()
        if op in ("Shl", "Shr", "ShlUnchecked", "ShrUnchecked"):
            if not y.is_const():
                raise Unsupported("symbolic shift amount")
            k = y.value()
            if k >= w:
                raise Unsupported("shift amount out of range")
            if op.startswith("Shl"):
                return BV([frozenset()] * k + x.bits[: w - k])
            return BV(x.bits[k:] + [frozenset()] * k)
        if op in ("Lt", "Le", "Gt", "Ge", "Eq", "Ne") and x.is_const() and y.is_const():
            a, c = x.value(), y.value()
            r = {"Lt": a < c, "Le": a <= c, "Gt": a > c, "Ge": a >= c, "Eq": a == c, "Ne": a != c}[op]
            return BV.const(1 if r else 0, 1)
        if op in ("Eq", "Ne") and (x.is_const() or y.is_const()) and x.size() == y.size():
            sym, cst = (y, x) if x.is_const() else (x, y)
            cmp = []
            for i, bit in enumerate(sym.bits):
                want = (cst.value() >> i) & 1
                if bit == frozenset():
                    if want:
                        return BV.const(0 if op == "Eq" else 1, 1)
                    continue
                if bit == frozenset([ONE]):
                    if not want:
                        return BV.const(0 if op == "Eq" else 1, 1)
                    continue
                if len(bit) == 1 and len(next(iter(bit))) == 1:
                    cmp.append((next(iter(next(iter(bit)))), want))
                else:
                    raise Unsupported("comparison of a non-input value")
            cmp = tuple(sorted(cmp))
            if cmp in self.assumed_false:
                return BV.const(0 if op == "Eq" else 1, 1)
            raise Fork(cmp)
        if x.size() != y.size():
            raise Unsupported(f"width mismatch in {op}")
        if op == "BitXor":
            return BV([bxor(p, q) for p, q in zip(x.bits, y.bits)])
        if op == "BitAnd":
            return BV([band(p, q) for p, q in zip(x.bits, y.bits)])
        if op == "BitOr":
            return BV([bor(p, q) for p, q in zip(x.bits, y.bits)])
        if op in ("MulWithOverflow", "Mul", "MulUnchecked") and self.mul_hook:
            r = self.mul_hook(x, y, w)
            if r is not None:
                return r if op == "MulWithOverflow" else r[0]
        raise Unsupported(f"{op} on symbolic bits")

    # asserts: only constant conditions are supported in this domain
    def run(self, name, args):
        n0 = len(self.obligations)
        r = super().run(name, args)
        return r


def anf_to_z3(bit, cache):
    """z3 Bool for an ANF bit (n-ary XOR over sorted monomials)."""
    terms = []
    for mono in sorted(bit, key=lambda m: sorted(m)):
        if not mono:
            terms.append(z3.BoolVal(True))
        else:
            vs = [cache.setdefault(v, z3.Bool(v)) for v in sorted(mono)]
            terms.append(vs[0] if len(vs) == 1 else z3.And(*vs))
    if not terms:
        return z3.BoolVal(False)
    r = terms[0]
    for t in terms[1:]:
        r = z3.Xor(r, t)
    return r


def clmul_anf(a_bits, b_bits, out_w):
    out = [set() for _ in range(out_w)]
    for i, ab in enumerate(a_bits):
        if not ab:
            continue
        for j, bb in enumerate(b_bits):
            if not bb or i + j >= out_w:
                continue
            out[i + j] ^= set(band(ab, bb))
    return BV([frozenset(s) for s in out])


def explore(make_eval, fn_name, make_inputs, max_paths=16):
    """Path-splitting driver. make_inputs(subst) -> list of BV arguments with the variables in
    `subst` replaced by constants.  Returns [(subst, assumed_false_cmps, result, evaluator)]."""
    todo = [({}, [])]
    done = []
    while todo:
        subst, neq = todo.pop()
        if len(done) + len(todo) > max_paths:
            raise Unsupported("too many paths")
        ev = make_eval(set(neq))
        try:
            res = ev.run(fn_name, make_inputs(subst))
            done.append((subst, neq, res, ev))
        except Fork as f:
            s2 = dict(subst)
            contradiction = False
            for v, want in f.cmp:
                if v in s2 and s2[v] != want:
                    contradiction = True
                s2[v] = want
            if not contradiction:
                todo.append((s2, neq))
            todo.append((subst, neq + [f.cmp]))
    return done


def var_bv(name, w, subst):
    return BV([(frozenset([ONE]) if subst[f"{name}{i}"] else frozenset()) if f"{name}{i}" in subst else frozenset([frozenset([f"{name}{i}"])]) for i in range(w)])


def mux(bits, switch_handling=None):
    return bits
