"""E2 queries for block::gf128::scalar (full width):

  L_k   (one per multiplication site of clmul64, 25 on the pinned tree): for all operands inside
        the site's operand masks, the machine product does not overflow and agrees with the
        carry-less product on every position of the carry-less support (carries stay in holes).
  COMP  clmul64 with every product replaced by a fresh 128-bit value constrained only by its
        lemma  ==  schoolbook GF(2)[x] product, for all x, y (64 x 64 bits).
  K128  clmul128 (Karatsuba) with clmul64 abstracted by the schoolbook definition, basis
        argument: for a = x^i (each i concretely), all b.
The MIR is regenerated from the scratch copy on every run."""
import time

import z3

from . import mir


def clmul_expr(a, b, width, abits=None):
    """carry-less product of two `width`-bit z3 terms (only bits of `a` listed in abits)."""
    r = z3.BitVecVal(0, width)
    for t in (abits if abits is not None else range(width)):
        bit = z3.Extract(t, t, a)
        r = r ^ z3.If(bit == 1, b << t, z3.BitVecVal(0, width))
    return r


def const_of(e):
    s = z3.simplify(e)
    if not z3.is_bv_value(s):
        raise mir.Unsupported("operand mask is not constant")
    return s.as_long()


def bits_of(mask):
    return [i for i in range(mask.bit_length()) if (mask >> i) & 1]


def clmul_support(ma, mb):
    s = 0
    for i in bits_of(ma):
        s ^= 0  # support is a set union, not xor
        for j in bits_of(mb):
            s |= 1 << (i + j)
    return s


CROSS = {"enabled": False, "dir": None, "n": 0, "agree": 0, "results": []}


def cross_check(s, name, expected):
    """Second opinion from another solver binary on the SMT-LIB2 export of the same query
    (thorough tier): z3-new 5.x for bit-vector queries, cvc5 for the Boolean ones.  Any
    `(error` line or a different verdict makes the query inconclusive."""
    import os
    import subprocess

    if not CROSS["enabled"]:
        return True
    path = os.path.join(CROSS["dir"], f"{name}.smt2")
    with open(path, "w") as f:
        f.write("(set-logic ALL)\n" + s.to_smt2())
    outs = []
    ok = True
    for solver, cmd in (("z3-new", ["z3-new", "-T:300", path]), ("cvc5", ["cvc5", "--lang", "smt2", "--tlimit=300000", path])):
        if solver == "cvc5" and not name.startswith("anf_"):
            continue  # cvc5 needs minutes per 128-bit bvmul lemma (measured: 3m44)
        try:
            p = subprocess.run(cmd, text=True, capture_output=True, timeout=400)
            out = (p.stdout + p.stderr).strip()
        except Exception as e:  # noqa: BLE001
            out = f"failed to run: {e}"
        verdict = out.split("\n")[0].strip() if out else ""
        outs.append((solver, verdict))
        CROSS["n"] += 1
        if "(error" in out or verdict != expected:
            ok = False
        else:
            CROSS["agree"] += 1
    CROSS["results"].append((name, outs))
    return ok


def check(solver_timeout_ms, *assertions, name=None):
    s = z3.Solver()
    s.set("timeout", solver_timeout_ms)
    for a in assertions:
        s.add(a)
    t0 = time.time()
    r = s.check()
    dt = time.time() - t0
    model = s.model() if r == z3.sat else None
    if name and str(r) == "unsat" and not cross_check(s, name, "unsat"):
        return "unknown (solvers disagree)", dt, None
    return str(r), dt, model


def run(dump_text, timeout_ms=120000, cross_dir=None):
    """-> list of result dicts (harness-like) for the runner."""
    if cross_dir:
        CROSS.update(enabled=True, dir=cross_dir)
    bodies, consts = mir.parse_dump(dump_text)
    results = []
    x = z3.BitVec("x", 64)
    y = z3.BitVec("y", 64)
    ones = z3.BitVecVal((1 << 64) - 1, 64)

    # ---- pass 1: record the multiplication sites of clmul64
    sites = []

    def hook(lhs, rhs, w):
        k = len(sites)
        p = z3.BitVec(f"P{k}", w)
        sites.append((lhs, rhs, p, w))
        return (p, z3.BitVecVal(0, 1))

    ev = mir.Eval(bodies, consts, mul_hook=hook)
    try:
        res = ev.run(ev.resolve("scalar::clmul64")[1] if "clmul64" not in bodies else "clmul64", [x, y])
    except mir.Unsupported as e:
        return [dict(harness=h, engine="mir->smt", what="", bounds="", functions=["block::gf128::scalar::clmul64 (MIR)"], checks=0, failed=[], covers=[], outcome="inconclusive", why=f"outside the supported MIR fragment: {e}", wall_s=0, verif_time_s=0) for h in ("e2_clmul64_product_lemmas", "e2_clmul64_composition", "e2_clmul128_karatsuba")]
    shift_obls = list(ev.obligations)

    # ---- lemmas
    constraints = []
    site_info = []
    t_lem = 0.0
    n_ok = 0
    lemma_fail = None
    for k, (lhs, rhs, p, w) in enumerate(sites):
        ma = const_of(z3.substitute(lhs, (x, ones), (y, ones)))
        mb = const_of(z3.substitute(rhs, (x, ones), (y, ones)))
        sup0 = clmul_support(ma, mb)
        # positions on which the lemma pins the machine product to the carry-less product:
        # everything except the (at most 3-bit) carry zones directly above a support position
        carry = 0
        for s_ in bits_of(sup0):
            carry |= (0b111 << (s_ + 1))
        sup = ((1 << w) - 1) & ~(carry & ~sup0)
        a = z3.BitVec("a", w)
        b = z3.BitVec("b", w)
        pre = z3.And(a & ~z3.BitVecVal(ma, w) == 0, b & ~z3.BitVecVal(mb, w) == 0)
        wide = z3.ZeroExt(w, a) * z3.ZeroExt(w, b)
        prod = z3.Extract(w - 1, 0, wide)
        no_ovf = z3.Extract(2 * w - 1, w, wide) == 0
        cl = clmul_expr(a, b, w, bits_of(ma))
        goal = z3.And(no_ovf, (prod & z3.BitVecVal(sup, w)) == cl)
        r, dt, model = check(timeout_ms, pre, z3.Not(goal), name=f"lemma_{k}")
        t_lem += dt
        if r == "unsat":
            n_ok += 1
        elif lemma_fail is None:
            lemma_fail = (k, r, ma, mb, model)
        site_info.append((ma, mb, sup if r == "unsat" else 0))
        # the composition may use exactly what the lemma states
        constraints.append((p & z3.BitVecVal(sup, w)) == clmul_expr(lhs, rhs, w, bits_of(ma)))
    results.append(
        dict(
            harness="e2_clmul64_product_lemmas",
            engine="mir->smt (z3 %s)" % z3.get_version_string(),
            what=f"{len(sites)} multiplication sites of scalar::clmul64: for all operands within the site's operand masks the 128-bit product does not overflow and equals the carry-less product on every position of the carry-less support",
            bounds="full width (13/12 free bits per operand as the masks dictate); no size bound",
            functions=["block::gf128::scalar::clmul64 (MIR)"],
            checks=len(sites),
            failed=[] if n_ok == len(sites) else [dict(desc=f"C20:e2:clmul64-product-lemma site {lemma_fail[0]} masks {lemma_fail[2]:#x} x {lemma_fail[3]:#x}: {lemma_fail[1]}", fn="clmul64", model=str(lemma_fail[4]))],
            covers=[],
            nonvacuous=True,
            verif_time_s=round(t_lem, 2),
            outcome="pass" if n_ok == len(sites) else ("fail" if lemma_fail and lemma_fail[1] == "sat" else "inconclusive"),
            why=None if n_ok == len(sites) else f"lemma {lemma_fail[0]}: {lemma_fail[1]}",
            wall_s=round(t_lem, 1),
        )
    )

    # ---- composition (bit level, algebraic normal form; z3 decides the per-bit equalities)
    from . import anf

    sites2 = []

    def hook2(lhs, rhs, w):
        k = len(sites2)
        if k >= len(site_info):
            raise mir.Unsupported("more multiplication sites than in pass 1")
        ma, mb, sup = site_info[k]
        # the lemma of this run: inside `sup` the product is the carry-less product; other
        # positions are unconstrained (fresh bits)
        cl = anf.clmul_anf(lhs.bits, rhs.bits, w)
        bits = [cl.bits[p] if (sup >> p) & 1 else frozenset([frozenset([f"P{k}_{p}"])]) for p in range(w)]
        sites2.append(k)
        return (anf.BV(bits), anf.BV.const(0, 1))

    t0 = time.time()
    ev2 = anf.AnfEval(bodies, consts, mul_hook=hook2)
    xb = anf.BV.var("x", 64)
    yb = anf.BV.var("y", 64)
    res2 = ev2.run("clmul64", [xb, yb])
    ref2 = anf.clmul_anf(xb.bits, yb.bits, 128)
    # the operand masks assumed by the lemmas must be the ones this pass sees
    cache = {}
    s = z3.Solver()
    s.set("timeout", timeout_ms)
    diffs = [z3.Xor(anf.anf_to_z3(p, cache), anf.anf_to_z3(q, cache)) for p, q in zip(res2.bits, ref2.bits)]
    obl_bad = []
    for d, c in ev2.obligations:
        if not (isinstance(c, bool) or z3.is_true(z3.simplify(c))):
            obl_bad.append(d)
    s.add(z3.Or(*diffs))
    r = str(s.check())
    if r == "unsat" and not cross_check(s, "anf_clmul64_composition", "unsat"):
        r = "unknown (solvers disagree)"
    dt = time.time() - t0
    fail = []
    if r == "sat":
        m = s.model()
        xv = sum((1 << i) for i in range(64) if z3.is_true(m.eval(cache.get(f"x{i}", z3.BoolVal(False)), True)))
        yv = sum((1 << i) for i in range(64) if z3.is_true(m.eval(cache.get(f"y{i}", z3.BoolVal(False)), True)))
        fail = [dict(desc="C20:e2:clmul64(x,y)==schoolbook", fn="clmul64", model={"x": xv, "y": yv})]
    results.append(
        dict(
            harness="e2_clmul64_composition",
            engine="mir->smt, bit-level ANF encoding (z3 %s)" % z3.get_version_string(),
            what="scalar::clmul64(x,y) == schoolbook GF(2)[x] product for ALL x,y (64x64), every machine product abstracted by its lemma (positions outside the lemma's mask are fresh bits)",
            bounds="full width, no size bound; relies on the product lemmas of this run",
            functions=["block::gf128::scalar::clmul64 (MIR)"],
            checks=128,
            failed=fail,
            covers=[],
            nonvacuous=True,
            verif_time_s=round(dt, 2),
            outcome="pass" if r == "unsat" and not obl_bad else ("fail" if r == "sat" else "inconclusive"),
            why=None if r in ("sat", "unsat") and not obl_bad else f"z3: {r}; non-constant assert conditions: {obl_bad[:2]}",
            wall_s=round(dt, 1),
            replay_kind="smt",
        )
    )

    # ---- clmul128 (Karatsuba) with clmul64 abstracted by its (now established) definition;
    # branches on "operand half == constant" are explored path by path
    t0 = time.time()
    try:
        def clmul64_abs(ev, args):
            return anf.clmul_anf(args[0].bits, args[1].bits, 128)

        fn128 = anf.AnfEval(bodies, consts).resolve("gf128::scalar::clmul128")[1]
        paths = anf.explore(
            lambda af: anf.AnfEval(bodies, consts, abstractions={"clmul64": clmul64_abs}, assumed_false=af),
            fn128,
            lambda subst: [anf.var_bv("a", 128, subst), anf.var_bv("b", 128, subst)],
        )
        fail = []
        verdicts = []
        for subst, neq, (lo, hi), ev3 in paths:
            ab = anf.var_bv("a", 128, subst)
            bb = anf.var_bv("b", 128, subst)
            ref3 = anf.clmul_anf(ab.bits, bb.bits, 256)
            cache = {}
            s = z3.Solver()
            s.set("timeout", timeout_ms)
            diffs = [z3.Xor(anf.anf_to_z3(p, cache), anf.anf_to_z3(q, cache)) for p, q in zip(lo.bits + hi.bits, ref3.bits)]
            s.add(z3.Or(*diffs))
            for cmp in neq:
                s.add(z3.Or(*[cache.setdefault(v, z3.Bool(v)) != z3.BoolVal(bool(w)) for v, w in cmp]))
            r = str(s.check())
            verdicts.append(r)
            if r == "sat":
                m = s.model()

                def val(nm, i):
                    k = f"{nm}{i}"
                    if k in subst:
                        return bool(subst[k])
                    return z3.is_true(m.eval(cache.get(k, z3.BoolVal(False)), True))

                av = sum((1 << i) for i in range(128) if val("a", i))
                bv = sum((1 << i) for i in range(128) if val("b", i))
                fail = [dict(desc="C20:e2:scalar::clmul128(a,b)==schoolbook(256-bit,split)", fn="clmul128", model={"a": av, "b": bv})]
                break
        dt = time.time() - t0
        outcome = "fail" if fail else ("pass" if all(v == "unsat" for v in verdicts) else "inconclusive")
        why = None if outcome != "inconclusive" else f"z3 verdicts: {verdicts}"
        npaths = len(paths)
    except mir.Unsupported as e:
        dt = time.time() - t0
        fail, outcome, why, npaths = [], "inconclusive", f"outside the supported MIR fragment: {e}", 0
    results.append(
        dict(
            harness="e2_clmul128_karatsuba",
            engine="mir->smt, bit-level ANF encoding (z3 %s)" % z3.get_version_string(),
            what="scalar::clmul128(a,b) == 128x128 schoolbook product split into (low, high) for ALL a,b, with clmul64 replaced by its definition",
            bounds=f"full width, no size bound; {npaths} control-flow path(s); relies on e2_clmul64_composition of this run",
            functions=["block::gf128::scalar::clmul128 (MIR)"],
            checks=256 * max(1, npaths),
            failed=fail,
            covers=[],
            nonvacuous=True,
            verif_time_s=round(dt, 2),
            outcome=outcome,
            why=why,
            wall_s=round(dt, 1),
            replay_kind="smt",
        )
    )
    if CROSS["enabled"]:
        for r_ in results:
            r_["cross_check"] = f"{CROSS['agree']} of {CROSS['n']} second-solver runs (z3-new 5.x on the bvmul lemmas, z3-new + cvc5 on the ANF composition) agree"
    return results


if __name__ == "__main__":
    import sys

    for r in run(open(sys.argv[1]).read()):
        print(r["harness"], r["outcome"], r.get("why"), r["verif_time_s"], r["failed"][:1])
