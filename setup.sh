#!/bin/bash
# Offline setup after a fresh restore (see runner/setup.py). Nothing is fetched.
cd "$(dirname "$0")"
export CARGO_NET_OFFLINE=true
exec python3 -m runner.setup
