"""Per-property tables: which harnesses / queries decide which obligations.

A harness may serve several properties.  Every assertion message starts with the id of the
property it belongs to ("C10:..."); when property P is run, failed assertions of other
properties are ignored (they are reported by *their* check), and generic CBMC failures
(panic, index out of bounds, overflow, unwinding) are attributed to the harness's
`panic_prop` (default: the property being run).
"""

FMT = "std::fmt::format -> empty String via #[kani::stub] (error-message building is not the subject)"
TRACING = "tracing/tracing-attributes replaced by a no-op stand-in in the scratch copy (logging = empty bodies)"
SEG = "segment harnesses: the statement run is cut verbatim out of the async function on every run (runner/segments.py); the values that arrived in the preceding .await are arbitrary well-typed values whose OUTER vector length is the one recv_vec_from enforces; inner lengths and Option patterns are unconstrained where stated"
N2 = "segment harnesses are instantiated for n = 2 parties (own index 0, peer 1) unless stated"

MODS = {
    "protocol": "mpc::protocol",
    "faand": "mpc::faand",
    "data_types": "mpc::data_types",
    "garble": "mpc::garble",
    "gf128": "block::gf128",
    "transpose": "transpose",
    "alsz": "ot_core::alsz",
    "kos": "ot_core::kos",
    "ot": "ot",
    "serde": "utils::serde",
    "channel": "channel",
    "aes_rng": "crypto::aes_rng",
    "aes_hash": "crypto::aes_hash",
    "avx2": "transpose::avx2",
    "fpre": "mpc::fpre",
    "file_or_mem_buf": "utils::file_or_mem_buf",
    "state": "state",
}
PACKAGES = {"state": "polytune-server-core"}

ALL = {}


def H(mod, name, **kw):
    sub = kw.pop("sub", None)
    d = dict(name=name, full=f"{MODS[mod]}::__verif::{sub + '::' if sub else ''}{name}", mod=mod, tier="quick", timeout=900)
    if mod in PACKAGES:
        d["package"] = PACKAGES[mod]
    d.update(kw)
    ALL[name] = d
    return d


# ------------------------------------------------------------------------------------------ harness registry

H("protocol", "build_probe", what="build probe", functions=[], bounds="-")

# C18
H("protocol", "c18_validate_ok_implies", timeout=1500,
  what="validate() never panics; Ok => p_own,p_eval,p_out[i] < parties, p_out non-empty and duplicate-free, inputs.len()==input_regs[p_own], Circuit::validate()==Ok",
  bounds="parties 0..=3, insts 0..=3 (all opcodes, all u32 registers/party/input), max_reg_count 0..=3, outputs 0..=2, and_ops any usize, p_own/p_eval/p_out[i] any usize, |p_out| 0..=3",
  functions=["mpc::protocol::validate", "mpc::protocol::Context::new", "garble_lang::register_circuit::Circuit::validate"], panic_prop="C18")

H("protocol", "c18_mpc_head_rejects_before_first_await", needs_segment=["mpc_head"],
  what="the statements of _mpc() in front of its first .await already reject invalid party indices, input length and output set (i.e. rejection happens before any message can be sent)", bounds="valid 2-party XOR circuit; p_own/p_eval/p_out[i] any usize, |p_out|,|inputs| <= 3", functions=["mpc::protocol::_mpc (head segment up to the first await)", "mpc::protocol::validate"], panic_prop="C18")
H("channel", "c08_recv_vec_len_check", needs_segment=["recv_vec_len_check"],
  what="recv_vec_from: Ok iff received length == expected length", bounds="vectors of 0..=3 elements, any expected length", functions=["channel::recv_vec_from (segment after the receive)"], panic_prop="C08")
H("channel", "c08_scatter_len_precheck", needs_segment=["scatter_len_precheck"],
  what="scatter: the length pre-check never panics and lets the round start only with equal non-empty lengths", bounds="3 parties, per-party vectors of 0..=3 elements", functions=["channel::scatter (pre-check segment)"], panic_prop="C08")
H("protocol", "c09_ip_pre_pattern_independent_of_shares", needs_segment=["ip_pre"],
  what="2-safety: the Some/None pattern (and error behaviour) of the 'wire shares' messages is the same for any two sets of share values", bounds="n=3, own index 1, two Input instructions with symbolic owners", functions=["mpc::protocol::input_processing (segment before scatter)"], panic_prop="C08")

# C06 (partial)
H("protocol", "c06_masked_input_contains_own_share", needs_segment=["ip_mid"],
  what="revealed input bit == input ^ own mask share ^ peer mask share; nothing revealed for foreign wires", bounds="n=2, honest peer share (valid MAC), all values symbolic", functions=["mpc::protocol::input_processing (segment between scatter and broadcast)"], panic_prop="C08")
H("protocol", "c06_own_input_share_not_sent", needs_segment=["ip_pre"],
  what="the own mask share of an own input wire is placed in no outgoing 'wire shares' message", bounds="n=3, own index 1, two Input instructions with symbolic owners", functions=["mpc::protocol::input_processing (segment before scatter)"], panic_prop="C08")
H("protocol", "c06_delta_is_a_random_draw", needs_segment=["delta_draw"],
  what="the global key is exactly one fresh random() draw", bounds="random() = k-th of four arbitrary values", functions=["mpc::protocol::fn_independent_pre (the expression assigned to delta)"], panic_prop="C08", stubs=["rand::random -> k-th of four arbitrary values"])
H("faand", "c06_fabitn_own_bits_are_fresh_draws", needs_segment=["fabitn_head"],
  what="aBit step 1: local mask-share bit k is the k-th random() draw, l + 3*rho of them", bounds="l=2, rho lowered to 1 inside the cut", functions=["mpc::faand::fabitn (step 1 segment)"], panic_prop="C08", stubs=["rand::random -> k-th of six arbitrary bits"])

# C01
H("protocol", "c01_batch_sizes", what="random_shares_batch_size / and_share_batch_size through the real Context::new: 0 iff total 0, <= total, >= min(total,1000), <= 9 chunks, single batch up to 1000, len*bucket*3 cannot overflow",
  bounds="all input counts < 2^39 per party (2 parties), and_ops < 2^40", functions=["mpc::protocol::Context::new", "Context::random_shares_batch_size", "Context::and_share_batch_size", "mpc::faand::bucket_size"], panic_prop="C01")
H("protocol", "c01_chunk_iter_small", what="chunk_size_iter: sizes in 1..=chunk, sum == total, all but last == chunk, count == ceil; chunk == 0 yields nothing",
  bounds="total <= 24, chunk <= 8, unwind 26 (unwinding assertions on)", functions=["mpc::protocol::chunk_size_iter"], panic_prop="C01")
H("protocol", "c01_chunk_iter_wide", tier="thorough", timeout=3600, what="chunk_size_iter for every (total, chunk) the engine can pass: same obligations",
  bounds="total < 2^40, chunk > 0, total/chunk <= 10", functions=["mpc::protocol::chunk_size_iter"], panic_prop="C01")
H("protocol", "c01_flush_pattern_matches_chunk_iter", what="producer flush pattern (full batches then remainder) == chunk_size_iter(and_ops, and_share_batch_size) for the real batch size",
  bounds="and_ops < 2^40", functions=["mpc::protocol::chunk_size_iter", "Context::and_share_batch_size"], panic_prop="C01")

# C02 / C03 / C05 segments of protocol.rs
for v, t, to in (("regs01", "quick", 1200), ("regs11", "quick", 900), ("regs10", "thorough", 1200)):
    H("protocol", f"c02_output_tail_n2_{v}", tier=t, timeout=to, needs_segment=["output_tail"],
      what="output opening at an output party: Ok(bits) => every peer output share present, MAC verified under own key/delta, bit == value ^ own share ^ peer share, one bit per output position",
      bounds=f"n=2, max_reg_count=2, output registers {v[-2]},{v[-1]} (duplicates / unsorted covered by the variants), all shares/MACs/keys/delta symbolic 128-bit, peer Option pattern free",
      functions=["mpc::protocol::output (tail segment)"], panic_prop="C08")
H("protocol", "c02_output_tail_n3", timeout=1200, est_gb=7, needs_segment=["output_tail"],
  what="output opening with two peers: Ok => both peers' shares present + MAC-verified for every output register; bit == value ^ all mask shares", bounds="n=3, own index 0, output registers (1,0), all values symbolic", functions=["mpc::protocol::output (tail segment)"], panic_prop="C08")
H("protocol", "c03_ip_mid_n3", needs_segment=["ip_mid"],
  what="input sharing with two peers: Ok => both peers' mask shares present + MAC-verified; masked == input ^ all mask shares", bounds="n=3, own index 0, one own input wire", functions=["mpc::protocol::input_processing (segment between scatter and broadcast)"], panic_prop="C08")
H("protocol", "c05_output_tail_non_output_party_gets_nothing", needs_segment=["output_tail"],
  what="a party outside p_out returns an empty vector from the opening", bounds="n=2, p_out=[1], own index 0", functions=["mpc::protocol::output (tail segment)"], panic_prop="C08")
for v, t in (("regs01", "quick"), ("regs11", "quick")):
    H("protocol", f"c03_output_label_check_n2_{v}", tier=t, needs_segment=["output_label_check"],
      what="evaluator's revealed (value,label): Ok => Some((b, label0 ^ b*delta)) for every output register, accepted value is the revealed one",
      bounds=f"n=2, max_reg_count=2, output registers {v[-2]},{v[-1]}, labels/delta symbolic", functions=["mpc::protocol::output (label-check segment)"], panic_prop="C08")
H("protocol", "c03_ip_mid_n2", needs_segment=["ip_mid"],
  what="input sharing at the input owner: Ok => peer mask share present + MAC verified; masked == input ^ own share ^ peer share; foreign wires None",
  bounds="n=2, 2 input instructions with symbolic owners, all values symbolic", functions=["mpc::protocol::input_processing (segment between scatter and broadcast)"], panic_prop="C08")
H("protocol", "c03_ip_post_n2", needs_segment=["ip_post"],
  what="ConflictingInputMask: a peer can fill only wires the party did not fill itself; merged == own-or-peer",
  bounds="n=2, 3 registers, arbitrary Option patterns", functions=["mpc::protocol::input_processing (segment after broadcast)"], panic_prop="C08")
H("protocol", "c05_ip_pre_n3", timeout=1500, needs_segment=["ip_pre"],
  what="mask shares of an input wire are addressed to the wire's owner only (never self, never a third party, never for non-input registers); arbitrary Input placement does not panic",
  bounds="n=3, own index 1, <=2 instructions of any opcode (Input position == out as Circuit::validate guarantees), 1..=2 input shares", functions=["mpc::protocol::input_processing (segment before scatter)"], panic_prop="C18")

for row, tier in ((0, "quick"), (1, "thorough"), (2, "thorough"), (3, "quick")):
    H("protocol", f"c03_evaluate_and_arm_n2_row{row}", tier=tier, needs_segment=["evaluate_and_arm"],
      what="evaluator, one AND gate: never panics; Ok => row decrypted, garbler share carries a MAC that verifies under the evaluator's key; masked output == own row bit ^ garbler bit; garbler label == label_share ^ own MAC",
      bounds=f"n=2, selected row {row}, decrypt result arbitrary (Ok with MAC vector of length 0..=2, or Err)", functions=["mpc::protocol::evaluate (AND arm segment)"], panic_prop="C08", stubs=["garble::decrypt -> arbitrary result (textual substitution in the cut segment)"])
H("protocol", "c01_and_gate_table_n2", needs_segment=["garbler_rows", "evaluator_rows", "garbler_row_labels"],
  what="authenticated garbled table of one AND gate, garbler + evaluator rows + row labels: row_i bits XOR to (a^lx)(b^ly)^lg, row shares carry valid MACs (incl. row-3 key correction), row label ^ evaluator MAC == label0 ^ value*delta",
  bounds="n=2, all bits/MACs/keys/both deltas/label symbolic 128-bit, all 4 rows", functions=["mpc::protocol::garble (garbler row construction, evaluator row construction, row labels)"], panic_prop="C01")
H("protocol", "c01_free_xor_not_garbler_labels", needs_segment=["garble_garbler_full"],
  what="garbler side of free XOR / NOT with register reuse: zero-labels L(xor)=L(x)^L(y), L(not)=L(x)^delta, untouched registers keep their label", bounds="Input, Input, XOR, NOT (register reuse); random() = arbitrary values in call order", functions=["mpc::protocol::garble (state set-up + garbler loop)"], panic_prop="C01")
H("protocol", "c01_free_xor_evaluator_labels", needs_segment=["evaluate_loop"],
  what="evaluator loop, Input/Input/XOR with register reuse: values == circuit on masked inputs; active label == zero-label ^ value*delta at every register", bounds="n=2, 3 instructions, all labels/delta/masked inputs symbolic", functions=["mpc::protocol::evaluate (loop segment)"], panic_prop="C01")
H("protocol", "c01_free_not_evaluator_labels", needs_segment=["evaluate_loop"],
  what="evaluator loop, Input/Input/NOT with register reuse: NOT flips the masked value and keeps the active label", bounds="n=2, 3 instructions", functions=["mpc::protocol::evaluate (loop segment)"], panic_prop="C01")
for row in (0, 1, 2, 3):
    H("protocol", f"c01_and_gate_full_n3_row{row}", tier="thorough", timeout=2400, mem_gb=30, est_gb=13, needs_segment=["garbler_rows", "evaluator_rows", "garbler_row_labels", "evaluate_and_arm_n3"],
      what="one AND gate end to end for n=3 (two garblers, evaluator): rows + row labels + the evaluator's AND arm composed: honest rows are accepted, the evaluator obtains the masked AND value and label0 ^ value*delta for both garblers",
      bounds=f"n=3, selected row {row}, all bits/keys/global keys/labels symbolic 128-bit (MAC relation and AND relation assumed)", functions=["mpc::protocol::garble (row construction, labels)", "mpc::protocol::evaluate (AND arm)"], panic_prop="C01", stubs=["garble::decrypt -> returns the plaintexts of the garblers' rows"])
for k, b_, tier, to in ((4, 2, "quick", 600), (5, 2, "thorough", 600), (3, 1, "thorough", 600), (4, 3, "quick", 600), (3, 2, "quick", 600)):
    H("protocol", f"c01_init_and_shares_chunks_k{k}_b{b_}", tier=tier, timeout=to, needs_segment=["init_and_shares_loop"],
      what="init_and_shares(): chunks written for gen_auth_bits == chunk_size_iter(and_ops, batch)", bounds=f"{k} AND gates, batch size {b_} (live-in of the cut loop)", functions=["mpc::protocol::init_and_shares (loop segment)", "mpc::protocol::chunk_size_iter"], panic_prop="C01", stubs=["FileOrMemBuf::write_chunk -> log of chunk lengths (textual substitution)"])
for k, b_, tier, to in ((3, 2, "quick", 1500), (4, 2, "thorough", 2400), (3, 1, "thorough", 1500), (5, 2, "thorough", 3000), (4, 3, "thorough", 2400)):
    H("protocol", f"c01_garbler_chunks_k{k}_b{b_}", tier=tier, timeout=to, est_gb=12, needs_segment=["garbler_loop"],
      what="garble() garbler side: gate chunks sent to the evaluator == chunk_size_iter(and_ops, batch) (what the evaluator's receive loop expects)", bounds=f"{k} AND gates, batch size {b_} (live-in of the cut loop)", functions=["mpc::protocol::garble (garbler loop segment)", "mpc::protocol::chunk_size_iter"], panic_prop="C01", stubs=["send_to(..'preprocessed gates'..).await -> log of chunk lengths", "garble::encrypt -> Ok(empty)", "rand::random -> 0"])

H("protocol", "c05_output_share_msg_n3", needs_segment=["output_share_msg"],
  what="output-wire shares message for one recipient: Some only for output registers, payload == (own share bit, own MAC towards that recipient)", bounds="n=3, own index 0, 3 registers, output registers (2,0,2), recipient 1 or 2", functions=["mpc::protocol::output (message-building closure of the first send round)"], panic_prop="C08")
H("protocol", "c05_output_lambda_msg_n3", needs_segment=["output_lambda_msg"],
  what="evaluator's reveal message for one recipient: Some only for output registers, payload == (masked value, label of that recipient)", bounds="n=3, 3 registers, output registers (2,0,2), recipient 1 or 2", functions=["mpc::protocol::output (message-building closure of the 'lambda' round)"], panic_prop="C08")
H("protocol", "c05_output_recipients", needs_segment=["output_share_recipients", "output_lambda_recipients"],
  what="recipients of both send rounds of output() == members of p_out other than the party itself, each once", bounds="|p_out| <= 3, all usize entries, any p_own", functions=["mpc::protocol::output (recipient expressions of both send rounds)"], panic_prop="C08")
H("protocol", "c07_garble_input_labels_are_fresh_draws", needs_segment=["garble_garbler_full"],
  what="garbler: every input wire's zero-label is its own random draw; wire labels == input labels; NOT offsets by delta", bounds="2 inputs + 1 NOT, random() = 4 arbitrary values in call order", functions=["mpc::protocol::garble (state set-up + garbler loop)"], panic_prop="C08", stubs=["rand::random -> k-th of four arbitrary values", "FileOrMemBuf::iter -> fixed shares", "encrypt/send_to as in garbler_loop"])
H("protocol", "c07_ip_labels_one_label_per_wire", needs_segment=["ip_labels"],
  what="garbler reveals exactly one label per input wire: label0 ^ masked bit * delta; nothing for other registers", bounds="3 registers, arbitrary Option pattern, labels/delta symbolic", functions=["mpc::protocol::input_processing (label selection segment)"], panic_prop="C08")

# faand segments
H("faand", "c04_check_dvalue_tail_n2_b3", needs_segment=["check_dvalue_tail"],
  what="d-value opening: Ok(d) => peer opened exactly as many d-bits and MACs as the bucket needs, every MAC verifies, d == own ^ peer; no inner length panics",
  bounds="n=2, one bucket of 3 triples (2 d-values), peer inner vector lengths 0..=3 free", functions=["mpc::faand::check_dvalue (segment after scatter)"], panic_prop="C08")
H("faand", "c04_check_dvalue_tail_n3_b2", needs_segment=["check_dvalue_tail"],
  what="d-value opening with two peers: Ok(d) => both opened exactly one d-bit + one MAC that verifies; d == xor of all openings", bounds="n=3, own index 0, one bucket of 2 triples, peer inner lengths 0..=2", functions=["mpc::faand::check_dvalue (segment after scatter)"], panic_prop="C08")
H("faand", "c04_bcast_verify_tail_n3", needs_segment=["bcast_verify_tail"],
  what="verified broadcast: Ok => every other party echoed exactly the hash of this party's own view of the third party's message", bounds="n=3, own index 0, arbitrary Option patterns and 128-bit hashes", functions=["mpc::faand::broadcast_verification (segment after scatter)"], panic_prop="C08")
H("faand", "c04_flaand_tail_n2", needs_segment=["flaand_tail"],
  what="leaky AND final check: Ok => XOR of all parties' H values == 0 for every triple", bounds="n=2, 2 triples, BLAKE3 verdicts arbitrary", functions=["mpc::faand::flaand (segment after the H broadcast)"], panic_prop="C08")
H("faand", "c04_fabitn_check_n2", needs_segment=["fabitn_check"],
  what="aBit check: Ok => opened MAC == XOR of the own keys selected by the coefficient bits ^ x*delta, for every combination", bounds="n=2, 2 combinations, 3 authenticated bits, all values symbolic", functions=["mpc::faand::fabitn (step 3c/3d segment)", "mpc::faand::chunked_update_with_rbits::<u128>"], panic_prop="C08")
H("faand", "c04_shared_rng_open_n2", needs_segment=["shared_rng_open"],
  what="coin tossing: Ok => the peer's decommitment was accepted by the commitment check; seed == xor of all contributions", bounds="n=2, all 32-byte contributions symbolic, BLAKE3 verdict arbitrary", functions=["mpc::faand::shared_rng (segment after the decommitment round)"], panic_prop="C08", stubs=["open_commitment -> arbitrary verdict (logged)", "ChaCha20Rng::from_seed(seed) -> seed (cpuid inline asm is not supported by Kani)"])
for _nm, _seg, _b, _tier in (("c04_shared_rng_pairwise_commit_before_reveal_n2", "shared_rng_pairwise_order", "n=2, own index 0", "quick"), ("c04_shared_rng_pairwise_commit_before_reveal_n3", "shared_rng_pairwise_order", "n=3, own index 1", "thorough")):
    H("faand", _nm, tier=_tier, needs_segment=[_seg],
      what="coin toss, WHOLE function body with both message rounds as environment calls: the seed is revealed only after the commitment round has returned Ok (a failed round => Err, nothing revealed); what is revealed to a peer is what the commitment sent to that peer was computed from (own id appended); peer decommitments are looked at only after the own reveal; Ok => every peer's decommitment was checked against that peer's commitment and id, and opened",
      bounds=_b + "; all 32-byte draws / peer seeds / peer commitments symbolic; success or failure of either round arbitrary; BLAKE3 = tag naming the call (commit) / arbitrary verdict per peer (open)",
      functions=["mpc::faand::" + ("shared_rng_pairwise" if "pairwise" in _nm else "shared_rng") + " (whole body; awaited rounds -> time-stamped environment calls)"], panic_prop="C08",
      stubs=["broadcast/unverified_broadcast/scatter(..).await -> CoinEnv method (records order and payload, arbitrary peer data, arbitrary Ok/Err)", "commit -> tag + remembered input", "open_commitment -> arbitrary verdict per peer, arguments compared with what that peer sent", "random() -> k-th of three arbitrary values", "ChaCha20Rng -> EnvSeed (cpuid inline asm is not supported by Kani)"])
H("kos", "c04_kos_check", needs_segment=["kos_check"],
  what="KOS correlation check: Ok => (check ^ x*s) == (t0, t1) (KOSConsistencyCheckFailed otherwise), with the carry-less product an arbitrary value", bounds="all 128-bit blocks", functions=["ot_core::kos::Sender::send_setup (segment after the receive)"], panic_prop="C08", stubs=["Block::clmul -> arbitrary (lo, hi) (textual substitution)"])
H("faand", "c04_beaver_check_n2", needs_segment=["beaver_check"],
  what="Beaver derandomisation, check of the opened (d,e): Ok => BOTH MACs of every triple verify under the own keys; openings == own ^ peer", bounds="n=2, two triples", functions=["mpc::faand::beaver_aand (segment after scatter, MAC check + accumulation)"], panic_prop="C08")
for de, tier in (("d0e0", "thorough"), ("d0e1", "quick"), ("d1e0", "quick"), ("d1e1", "quick")):
    H("faand", f"c10_beaver_final_n2_{de}", tier=tier, needs_segment=["beaver_final"],
      what="Beaver derandomisation, final share == c ^ d*beta ^ e*a (bit, MAC, key)", bounds=f"n=2, one triple, opened (d,e) = {de}", functions=["mpc::faand::beaver_aand (final-share segment)"], panic_prop="C10")
H("faand", "c07_fashare_3c_n2", needs_segment=["fashare_3c"],
  what="aShare step 3c: no peer decommitment panics; claimed bits > 1 rejected; opens d0 or d1; d0^delta only for a claim whose MAC verifies under the own key",
  bounds="n=2, RHO lowered to 2 inside the cut segment, peer inner lengths {0,1,16,17}", functions=["mpc::faand::fashare (step 3c segment)"], panic_prop="C08")
H("faand", "c04_fashare_3d_n2", needs_segment=["fashare_3d"],
  what="aShare step 3d: Ok => XOR of decommitted MACs == opened key sum for every check object", bounds="n=2, RHO lowered to 2 inside the cut segment, BLAKE3 verdicts arbitrary", functions=["mpc::faand::fashare (step 3d segment)"], panic_prop="C08")

# C10 algebra
for n, t, to, mem in ((2, "quick", 900, 20), (3, "quick", 900, 20), (4, "quick", 900, 20)):
    H("data_types", f"c10_share_xor_n{n}", tier=t, timeout=to, what="&Share ^ &Share preserves mac_i[j] == key_j[i] ^ bit_i*delta_j for every ordered pair", bounds=f"n={n}, full 128-bit", functions=["<&Share as BitXor>::bitxor", "<&Auth as BitXor>::bitxor"], panic_prop="C10")
H("data_types", "c10_auth_helpers_n3", what="xor_keys == XOR of keys; macs() in order; xor_key(i,d) changes exactly key i", bounds="n=3, i in 0..=3", functions=["Auth::xor_keys", "Auth::macs", "Auth::xor_key"], panic_prop="C10")
H("data_types", "c10_typed_ops", what="typed XOR/AND operators and the MAC-check expression mac != key ^ (bit & delta)", bounds="full width", functions=["data_types operator impls"], panic_prop="C10")
H("faand", "c10_bucket_size_table", what="bucket_size == 5 below 3100, 4 from 3100, 3 from 280000", bounds="all usize", functions=["mpc::faand::bucket_size"], panic_prop="C10")
H("faand", "c04_beaver_check_n4", needs_segment=["beaver_check"],
  what="Beaver opening with three peers: Ok => every peer's d and e MACs verify; opened d,e == XOR of ALL four contributions", bounds="n=4, own index 0, one triple", functions=["mpc::faand::beaver_aand (segment after scatter, MAC check + accumulation)"], panic_prop="C08")
H("faand", "c10_fashare_round_honest_n3", timeout=1200, est_gb=8, needs_segment=["fashare_3a", "fashare_3c", "fashare_3d"],
  what="aShare consistency round end to end for honest parties: steps 3a (all parties), 3c and 3d (party 0) composed; honest openings pass the MAC-sum check, i.e. the decommitment byte layout agrees between producer and consumer for every pair", bounds="n=3, rho lowered to 2, all bits/keys/global keys symbolic", functions=["mpc::faand::fashare (steps 3a, 3c, 3d segments)"], panic_prop="C10", stubs=["commit -> constant, open_commitment -> arbitrary verdict"])
H("faand", "c10_fabitn_result_n3", needs_segment=["fabitn_result"],
  what="aBit result assembly: share l == (x[l], (MAC_k[l], key_k[l]) for every peer k), own slot zero, sacrificed objects cut off", bounds="n=3, own index 1, l=2 of 3 generated bits, all values symbolic", functions=["mpc::faand::fabitn (step 4 segment)"], panic_prop="C10")
H("faand", "c10_faand_combine_lengths", needs_segment=["faand_combine"],
  what="aAND after the d-value round: number of d-value vectors must equal the number of buckets; one triple per bucket", bounds="n=2, 2 buckets of 2, 0..=3 d-value vectors", functions=["mpc::faand::faand (segment after check_dvalue)"], panic_prop="C10")
H("faand", "c10_combine_two_n2", timeout=1200, est_gb=7, what="combine_two_leaky_ands as inductive step: valid triple + valid leaky triple + honest d => valid triple with AND relation and y == y1", bounds="n=2, all bits/MACs/keys/deltas symbolic", functions=["mpc::faand::combine_two_leaky_ands"], panic_prop="C10")
H("faand", "c10_combine_two_n3", tier="thorough", timeout=2400, mem_gb=30, est_gb=14, what="same, n=3", bounds="n=3", functions=["mpc::faand::combine_two_leaky_ands"], panic_prop="C10")
H("faand", "c10_combine_bucket_fold_b3", what="combine_bucket fold order (d_vec[k-1] with element k); empty bucket => Err", bounds="n=2, bucket of 3", functions=["mpc::faand::combine_bucket", "mpc::faand::combine_two_leaky_ands"], panic_prop="C10")
for ln, t in ((1, "thorough"), (63, "thorough"), (64, "quick"), (65, "quick"), (127, "thorough"), (128, "quick"), (129, "quick"), (130, "thorough"), (192, "thorough"), (193, "thorough"), (256, "thorough"), (257, "thorough")):
    H("faand", f"c10_chunked_bool_{ln}", tier=t, timeout=1200, what="chunked_update_with_rbits::<bool>: element k visited once, in order, with bit k mod 128 of block k div 128", bounds=f"length {ln}, all element and coefficient bits symbolic", functions=["mpc::faand::chunked_update_with_rbits::<bool>"], panic_prop="C10")
for ln, t in ((65, "thorough"), (129, "quick"), (193, "thorough")):
    H("faand", f"c10_chunked_u128_{ln}", tier=t, timeout=1200, what="chunked_update_with_rbits::<u128>: same", bounds=f"length {ln}", functions=["mpc::faand::chunked_update_with_rbits::<u128>"], panic_prop="C10")

# C20
H("gf128", "c20_gf128_reduce_eq_bitserial", what="scalar::gf128_reduce == bit-serial reduction mod x^128+x^7+x^2+x+1", bounds="all 2^256 inputs", functions=["block::gf128::scalar::gf128_reduce"], panic_prop="C20")
H("gf128", "c20_clmul64_basis_times_full", what="scalar::clmul64(x^i, y) == y << i and symmetric", bounds="all i < 64, all y", functions=["block::gf128::scalar::clmul64"], panic_prop="C20")
H("gf128", "c20_clmul64_window16_times_full", tier="thorough", timeout=5400, what="scalar::clmul64 == schoolbook for x an arbitrary 16-bit window at any shift <= 48, y arbitrary", bounds="16-bit window of x, all y", functions=["block::gf128::scalar::clmul64"], panic_prop="C20")
H("gf128", "c20_clmul128_karatsuba_basis_times_full", what="scalar::clmul128 recombination (clmul64 replaced by its definition): (x^i, b) -> b << i as 256 bits split into (low, high), and symmetric", bounds="all i < 128, all b", functions=["block::gf128::scalar::clmul128"], panic_prop="C20", stubs=["scalar::clmul64 -> schoolbook definition"])
H("gf128", "c20_clmul128_karatsuba_windows8", tier="thorough", timeout=3600, what="scalar::clmul128 recombination (clmul64 replaced by its definition) == schoolbook on two arbitrary 8-bit windows at arbitrary positions", bounds="8-bit windows, shifts 0..=120 each", functions=["block::gf128::scalar::clmul128"], panic_prop="C20", stubs=["scalar::clmul64 -> schoolbook definition"])
H("gf128", "c20_pclmul_clmul128_basis_times_full", sub="pclmul", what="PCLMUL path clmul::clmul128 (instruction replaced by Intel's definition): same basis x full obligation", bounds="all i < 128, all b", functions=["block::gf128::clmul::clmul128"], panic_prop="C20", stubs=["_mm_clmulepi64_si128 -> 64x64 schoolbook of the selected halves"])
H("gf128", "c20_pclmul_reduce_eq_bitserial", sub="pclmul", what="PCLMUL path clmul::gf128_reduce == bit-serial reduction", bounds="all 2^256 inputs", functions=["block::gf128::clmul::gf128_reduce"], panic_prop="C20", stubs=["_mm_clmulepi64_si128 -> definition"])
for blk in (0, 1):
    H("avx2", f"c20_avx2_rest_cols_256x16_block{blk}", tier="thorough", timeout=2400, est_gb=10, needs_segment=["avx2_rest_cols"],
      what="AVX2 path, rest-column handling: butterfly input row k == input row 128i+k; transposed row k is stored at output row k, byte offset 16i, with the OUTPUT stride", bounds=f"256 x 16 matrix, row block {blk}, fixed distinct byte patterns (addressing only)", functions=["transpose::avx2::handle_rest_cols (whole body)"], panic_prop="C20", stubs=["avx_transpose128x128 -> hands out a chosen transposed square (the butterfly itself is not covered)"])
H("aes_hash", "c20_cr_hash_structure", needs_segment=["cr_hash_block_body"],
  what="cr_hash_block(x) == pi(x) ^ x with pi (the fixed-key AES permutation) an arbitrary function", bounds="all blocks", functions=["crypto::aes_hash::AesHash::cr_hash_block (whole body)"], panic_prop="C20", stubs=["Aes128::encrypt_block -> arbitrary function on the evaluated points (textual substitution)"])
H("aes_hash", "c20_tccr_hash_structure", needs_segment=["tccr_hash_block_body"],
  what="tccr_hash_block(t, x) == pi(pi(x) ^ t) ^ pi(x) with pi an arbitrary function (in particular the tweak is used, and used on pi(x))", bounds="all blocks and tweaks", functions=["crypto::aes_hash::AesHash::tccr_hash_block (whole body)"], panic_prop="C20", stubs=["Aes128::encrypt_block -> arbitrary function on the evaluated points (textual substitution)"])
H("transpose", "c20_portable_transpose_16x16", what="portable::transpose_bitmatrix: out[c][r] == in[r][c]", bounds="every 16x16 input", functions=["transpose::portable::transpose_bitmatrix"], panic_prop="C20", stubs=["_mm_sll_epi64 -> Intel SDM model"])
H("transpose", "c20_portable_transpose_16x24", tier="thorough", timeout=1800, what="same", bounds="every 16x24 input", functions=["transpose::portable::transpose_bitmatrix"], panic_prop="C20")
H("transpose", "c20_portable_transpose_32x16", tier="thorough", timeout=1800, what="same", bounds="every 32x16 input", functions=["transpose::portable::transpose_bitmatrix"], panic_prop="C20")

# C11
for ln, t in ((0, "quick"), (1, "quick"), (7, "quick"), (8, "quick"), (9, "quick"), (15, "thorough"), (16, "quick"), (17, "quick"), (31, "thorough"), (33, "thorough"), (63, "thorough"), (64, "thorough")):
    H("alsz", f"c11_pack_roundtrip_{ln}", tier=t, what="boolvec_to_u8vec/u8vec_to_boolvec: length ceil(len/8), bit i == choice i, zero padding, round trip", bounds=f"length {ln}, all bit patterns", functions=["ot_core::alsz::boolvec_to_u8vec", "ot_core::alsz::u8vec_to_boolvec"], panic_prop="C11")
H("kos", "c11_kos_correlated_output_stage", needs_segment=["kos_send_corr", "kos_recv_corr"],
  what="correlated OT output stage, sender and receiver loops composed: received_j == x0_j ^ (choice_j & delta_j), x1_j == x0_j ^ delta_j, both sides return the requested length; index/tweak/offset agreement between the two sides",
  bounds="3 transfers, all blocks symbolic; ALSZ matrix correlation t_j = q_j ^ choice_j*s assumed; TCCR hash = arbitrary function on the evaluated points", functions=["ot_core::kos::Sender::send_correlated (output loop)", "ot_core::kos::Receiver::recv_correlated (output loop)"], panic_prop="C11", stubs=["AesHash::tccr_hash_block -> arbitrary function (textual substitution)"])
H("ot", "c11_block_u128_byte_order", what="block_to_u128(Block::from(x.to_be_bytes())) == x; XOR commutes; big-endian over block bytes", bounds="all 2^128 values", functions=["ot::block_to_u128", "Block::from<[u8;16]>"], panic_prop="C11")

# C09
H("serde", "c09_len_scalars", what="serialize length of u128 / (bool,Mac) / u64 is value-independent and fixed-width (16 / 17 / 8)", bounds="all values", functions=["utils::serde::serialize", "bincode::serde::encode_to_vec (legacy config)"], panic_prop="C09")
for nm, what in (("c09_len_vec_opt_bool_mac", "Vec<Option<(bool,Mac)>>"), ("c09_len_vec_opt_bool_and_label", "Vec<Option<bool>>, Vec<Option<Label>>, Vec<Option<(bool,Label)>>"), ("c09_len_u128_family", "Vec<u128>, Vec<(bool,u128)>, Vec<(bool,bool,Mac,Mac)>, Vec<(bool,bool)>, Vec<u32>"), ("c09_len_dvalues_and_row", "Vec<(Vec<bool>,Vec<Mac>)>, (bool,Vec<Mac>,Label)"), ("c09_len_blocks_and_bytes", "Vec<Block>, Vec<(Block,Block,Block)>, Vec<Vec<u8>>"), ("c09_len_share_n2", "Vec<Share>")):
    H("serde", nm, tier="thorough" if nm == "c09_len_blocks_and_bytes" else "quick", timeout=1200, what=f"serialize length of {what} is the same for all leaf values of one shape (self-composition) and equals 8 + sum of fixed widths", bounds="vector lengths <= 3, fixed Option pattern, all leaf values symbolic", functions=["utils::serde::serialize", "bincode::serde::encode_to_vec (legacy config)"], panic_prop="C09")
H("garble", "c09_encrypt_plaintext_len_value_independent", needs_segment=["encrypt_plaintext_len"], timeout=1200,
  what="garbled row: the plaintext handed to the AEAD by encrypt() has a value-independent length == 1+8+16n+16", bounds="n=2 MACs, all values symbolic (self-composition)", functions=["mpc::garble::encrypt (statements before the AEAD call + its plaintext argument)", "utils::serde::serialize"], panic_prop="C09", stubs=["ChaCha20Poly1305 itself is outside the cut (ciphertext = plaintext + 16-byte tag by the AEAD's definition)"])
H("garble", "c09_key_and_nonce_injective", what="AEAD (key, nonce) is fixed-size and injective in (label_x, label_y, w as u64, row); layout big-endian", bounds="full width", functions=["mpc::garble::key_and_nonce"], panic_prop="C09")

# C08 decoders
for nm, ty, n, t in (("c08_decode_vec_bool_12", "Vec<bool>", 12, "quick"), ("c08_decode_vec_u128_12", "Vec<u128>", 12, "quick"), ("c08_decode_vec_bool_u128_12", "Vec<(bool,u128)>", 12, "quick"), ("c08_decode_vec_opt_bool_12", "Vec<Option<bool>>", 12, "quick"), ("c08_decode_vec_opt_bool_mac_12", "Vec<Option<(bool,Mac)>>", 12, "quick"), ("c08_decode_vec_opt_label_12", "Vec<Option<Label>>", 12, "quick"), ("c08_decode_vec_vec_u8_18", "Vec<Vec<u8>>", 18, "thorough"), ("c08_decode_vec_block_12", "Vec<Block>", 12, "thorough"), ("c08_decode_row_25", "(bool,Vec<Mac>,Label)", 25, "thorough"), ("c08_decode_vec_dvalues_18", "Vec<(Vec<bool>,Vec<Mac>)>", 18, "thorough"), ("c08_decode_vec_bool_9", "Vec<bool>", 9, "quick"), ("c08_decode_vec_opt_bool_mac_9", "Vec<Option<(bool,Mac)>>", 9, "thorough"), ("c08_decode_vec_bool_8", "Vec<bool>", 8, "quick"), ("c08_decode_vec_u32_12", "Vec<u32>", 12, "quick"), ("c08_decode_vec_opt_u128_12", "Vec<Option<u128>>", 12, "quick"), ("c08_decode_vec_bool_bool_12", "Vec<(bool,bool)>", 12, "thorough"), ("c08_decode_vec_bbmm_12", "Vec<(bool,bool,Mac,Mac)>", 12, "thorough"), ("c08_decode_vec_opt_bool_label_12", "Vec<Option<(bool,Label)>>", 12, "thorough")):
    H("serde", nm, tier=t, timeout=1500, what=f"deserialize::<{ty}> returns Ok or Err for every byte string: no panic/overflow/OOB, no failed allocation for any 64-bit length prefix", bounds=f"every byte string of length {n}", functions=["utils::serde::deserialize", "bincode::serde::decode_from_slice (legacy config)"], panic_prop="C08")


def variant(base, suffix, **kw):
    """Same harness body instantiated for another owning property (see `pa!` in harness/*.rs)."""
    b = ALL[base]
    d = dict(b)
    d["name"] = base + suffix
    d["full"] = b["full"] + suffix
    d.update(kw)
    ALL[d["name"]] = d
    return d


for _b in ("c02_output_tail_n2_regs01", "c02_output_tail_n2_regs11"):
    variant(_b, "__c03")
    variant(_b, "__c01")
for _b in ("c03_output_label_check_n2_regs01", "c03_output_label_check_n2_regs11"):
    variant(_b, "__c02")
for _b in ("c03_evaluate_and_arm_n2_row0", "c03_evaluate_and_arm_n2_row3"):
    variant(_b, "__c01", tier="quick")
variant("c01_and_gate_table_n2", "__c10")
variant("c04_check_dvalue_tail_n2_b3", "__c02")
variant("c04_check_dvalue_tail_n2_b3", "__c10")
variant("c07_fashare_3c_n2", "__c04")
variant("c07_fashare_3c_n2", "__c10")
variant("c04_beaver_check_n2", "__c10")
variant("c04_bcast_verify_tail_n3", "__c03")
variant("c04_beaver_check_n4", "__c10")


def hs(*names):
    return [ALL[n] for n in names]


# trusted dealer (fpre.rs): the synchronous loops between its awaits
for _n in (2, 3, 4, 5):
    H("fpre", f"c10_fpre_and_plain_n{_n}", needs_segment=["fpre_and_plain"],
      what="dealer: c = (XOR_i a_i) & (XOR_i b_i) over ALL parties' submitted shares", bounds=f"{_n} parties, all bit values", functions=["mpc::fpre::fpre (AND section: reconstruction of a, b, c)"], panic_prop="C10")
for _n in (2, 3):
    H("fpre", f"c10_fpre_and_deal_n{_n}", needs_segment=["fpre_and_deal"],
      what="dealer: the dealt AND shares XOR to c and every share carries MAC = key ^ bit*delta under every other party's key", bounds=f"{_n} parties, one gate, all coins / deltas symbolic", functions=["mpc::fpre::fpre (AND section: sharing of c)"], panic_prop="C10", stubs=["rand::random -> arbitrary value per call"], est_gb=2)
    H("fpre", f"c10_fpre_random_deal_n{_n}", needs_segment=["fpre_random_deal"],
      what="dealer: every dealt random share has one (MAC, key) slot per party and MAC = key ^ bit*delta under every other party's key", bounds=f"{_n} parties, one share, all coins / deltas symbolic", functions=["mpc::fpre::fpre (random-share loop body)"], panic_prop="C10", stubs=["rand::random -> arbitrary value per call"], est_gb=2)
H("fpre", "c04_fpre_dealer_detects_inconsistent_shares_n2", needs_segment=["fpre_cheat_check"],
  what="dealer: submitted AND-gate shares are accepted only if every non-zero MAC verifies under the key the other party submitted", bounds="2 parties, one gate, all values symbolic", functions=["mpc::fpre::fpre (consistency check of submitted shares)"], panic_prop="C04", est_gb=6)

# C14 / C16 (partial): polytune-server-core state machine, decision points cut from the async handlers
SC = "crates/polytune-server-core/src/state.rs"
RS = "std::collections::hash_map::RandomState::new -> fixed keys via #[kani::stub] (getrandom is a syscall; all maps stay empty)"
ANS = "ret_err(ret, e) / ret.send(Ok(())) replaced by recorders of (reply-channel kind, error variant) - the oneshot senders stay real; sending for real drags the drop glue of Box<dyn Error> (every Error impl) into CBMC"
ENVST = "`self` is an EnvState carrying the real PolicyStateKind<C>; init_channel / insert_consts / check_consts (tokio mpsc queues, Garble constants) are call recorders"
H("state", "c14_msg_unknown_sender_is_an_error", needs_segment=["sc_msg_head"],
  what="msg(): a sender index >= number of channel endpoints is answered with an error before the forwarding send, no panic, ControlFlow::Continue; a known index reaches the send", bounds="0..=3 endpoints, any usize sender index", functions=["state::PolicyState::msg (statements before the first .await)"], panic_prop="C14")
H("state", "c14_msg_before_schedule_is_an_error", needs_segment=["sc_msg_head"],
  what="msg() before any schedule (no endpoints): every sender index is answered with an error, machine keeps running", bounds="0 endpoints, any usize sender index", functions=["state::PolicyState::msg (statements before the first .await)"], panic_prop="C14")
H("state", "c14_schedule_duplicate_while_executing", needs_segment=["sc_schedule", "sc_executing_ctor"],
  what="schedule() while Executing, as leader and as follower: InvalidState error, state kept, init_channel NOT called (endpoints of the running computation untouched), Continue, no second validation round", bounds="party < 3, leader/follower symbolic, state Executing", functions=["state::PolicyState::schedule (after the type check: endpoint creation, leader head up to the first RPC, follower branch)"], panic_prop="C14", stubs=[RS], est_gb=2)
H("state", "c14_schedule_first_is_accepted", needs_segment=["sc_schedule"],
  what="counterpart: the first schedule in Init creates the endpoints once; follower -> AwaitingValidation unanswered; leader proceeds to validation", bounds="party < 3, leader/follower symbolic, state Init", functions=["state::PolicyState::schedule (same segment)"], panic_prop="C14", stubs=[RS], est_gb=3)
H("state", "c14_validate_while_executing", needs_segment=["sc_validate", "sc_executing_ctor"],
  what="validate() while Executing: InvalidState error, state kept, Continue", bounds="any leader index in the request", functions=["state::PolicyState::validate (whole body)"], panic_prop="C14", stubs=[RS], est_gb=2)
H("state", "c14_validate_duplicate_while_pending", needs_segment=["sc_validate"],
  what="a second validate while the first is pending (ValidateRequested): error for the second caller only, the pending one stays unanswered, state kept", bounds="any leader index in the request", functions=["state::PolicyState::validate (whole body)"], panic_prop="C14", stubs=[RS], est_gb=2)
H("state", "c14_consts_before_schedule", needs_segment=["sc_consts"],
  what="consts() in Init: InvalidState error, nothing inserted, state kept, Continue", bounds="any sender index", functions=["state::PolicyState::consts (whole body; check_consts().await -> recorder)"], panic_prop="C14", stubs=[RS], est_gb=2)
H("state", "c14_consts_before_validation", needs_segment=["sc_consts"],
  what="consts() in ValidateRequested: InvalidState error, nothing inserted, pending validate unanswered, state kept", bounds="any sender index", functions=["state::PolicyState::consts (whole body)"], panic_prop="C14", stubs=[RS], est_gb=2)
H("state", "c14_consts_while_executing", needs_segment=["sc_consts", "sc_executing_ctor"],
  what="consts() while Executing: InvalidState error, nothing inserted, state kept", bounds="any sender index", functions=["state::PolicyState::consts (whole body)"], panic_prop="C14", stubs=[RS], est_gb=2)
H("state", "c16_validate_same_program", needs_segment=["sc_validate"],
  what="validate() against a scheduled follower policy, same program hash: leader equal -> Ok for both callers + Validated; leader different -> LeaderMismatch error, schedule never answered Ok, Break", bounds="leader indices < 3 symbolic on both sides", functions=["state::PolicyState::validate (whole body)"], panic_prop="C16", stubs=[RS], est_gb=3)
H("state", "c16_validate_other_program", needs_segment=["sc_validate"],
  what="same with a different program hash: always refused (hash or leader error), schedule never answered Ok, Break", bounds="leader indices < 3 symbolic; hashes 'a' vs 'b'", functions=["state::PolicyState::validate (whole body)"], panic_prop="C16", stubs=[RS, "Policy::program_hash (BLAKE3) -> one of two one-byte strings"], est_gb=3)
H("state", "c16_schedule_after_validate_same_program", needs_segment=["sc_schedule"],
  what="other arrival order (validate first, then the follower's schedule), same hash: leader equal -> Ok for both + Validated + endpoints created once; different -> LeaderMismatch for both callers, Break", bounds="leader indices < 3 symbolic on both sides", functions=["state::PolicyState::schedule (follower branch)"], panic_prop="C16", stubs=[RS], est_gb=2)
H("state", "c16_schedule_after_validate_other_program", needs_segment=["sc_schedule"],
  what="same with a different program hash: validate caller gets an error, schedule caller never Ok, Break", bounds="leader indices < 3 symbolic; hashes 'a' vs 'b'", functions=["state::PolicyState::schedule (follower branch)"], panic_prop="C16", stubs=[RS, "Policy::program_hash (BLAKE3) -> one of two one-byte strings"], est_gb=3)


# C17 (partial): what the leader / the constants task do when an RPC round fails
POLL = "`.await` inside these cuts = one poll with a no-op waker; every awaited future is an environment future that is ready at once (joined RPC round = arbitrary Ok/Err, stand-in semaphore / command queue / client that record what they are asked)"
for _o in ("without", "with"):
    H("state", f"c17_leader_rpc_failures_{_o}_output_destination", needs_segment=["sc_leader_rpcs"],
      what="leader's schedule() behind the validate round: failed validate round -> caller gets ValidateFailed, no permit kept, Break; failed run round -> Break, the permit taken before the round is returned, exactly one error to the output destination if there is one, no hand-over to run(); all fine -> one permit held, Validated, Run enqueued", bounds=f"policy {_o} output destination; validate/run round results symbolic", functions=["state::PolicyState::schedule (leader branch behind the creation of the validate futures, without the statement that creates the run futures)"], panic_prop="C17", stubs=[RS], est_gb=3)
    H("state", f"c17_consts_rpc_failure_{_o}_output_destination", needs_segment=["sc_consts_task"],
      what="constants task of run(): failed constants round -> exactly one error to the output destination if there is one, and the policy ends at this party (Stop/Cancel reported, or the client not handed back) instead of InternalConstsSent as after success", bounds=f"policy {_o} output destination; round result symbolic", functions=["state::PolicyState::run (spawned constants task behind the creation of the RPC futures)"], panic_prop="C17", stubs=[RS], est_gb=3)


# C15 (partial): cancel() against a freshly spawned MPC task, on tokio's real Notify
H("state", "c15_cancel_before_the_mpc_task_was_polled", needs_segment=["sc_cancel_executing"],
  what="cancel() in Executing when the MPC task has not been polled yet: cancel() does not complete / answer before the task acknowledges, and the cancel notification is still there when the task registers", bounds="one cancel, task not yet polled (the schedule the property text names); tokio::sync::Notify is the real one", functions=["state::PolicyState::cancel (arm for Executing)", "tokio::sync::Notify::{notify_one, notified}"], panic_prop="C15", est_gb=2)
H("state", "c15_cancel_after_the_mpc_task_acknowledged", needs_segment=["sc_cancel_executing"],
  what="counterpart: the task has sent its one notification and acknowledged; cancel() completes and answers Ok exactly once", bounds="one cancel after the acknowledgement", functions=["state::PolicyState::cancel (arm for Executing)", "tokio::sync::Notify::{notify_one, notified}"], panic_prop="C15", est_gb=1)


H("state", "c14_run_before_schedule", needs_segment=["sc_run_fallback"],
  what="run request in Init: the invalid-state arm of run() answers InvalidState, keeps the state, starts nothing, Continue", bounds="state Init; request with reply channel", functions=["state::PolicyState::run (body of the arm for states that cannot run)"], panic_prop="C14", stubs=[RS], est_gb=2)
H("state", "c14_run_while_executing", needs_segment=["sc_run_fallback", "sc_executing_ctor"],
  what="run request while Executing: InvalidState, state and endpoints kept, nothing started, Continue", bounds="state Executing; request with reply channel", functions=["state::PolicyState::run (body of the arm for states that cannot run)"], panic_prop="C14", stubs=[RS], est_gb=2)
H("state", "c14_internal_run_while_executing", needs_segment=["sc_run_fallback", "sc_executing_ctor"],
  what="same for the machine's own Run command (no reply channel): nothing answered, state kept", bounds="state Executing; request without reply channel", functions=["state::PolicyState::run (body of the arm for states that cannot run)"], panic_prop="C14", stubs=[RS], est_gb=2)
H("state", "c16_ill_typed_program_is_refused_first", needs_segment=["sc_schedule_head"],
  what="schedule() up to the endpoint creation: a program the type checker rejects -> InvalidProgram to the caller, Break, nothing else happened; an accepted one is passed on", bounds="type checker verdict arbitrary; any party/leader index", functions=["state::PolicyState::schedule (head)"], panic_prop="C16", stubs=[RS, "garble_lang::check -> arbitrary verdict (Err = Error::FnNotFound, Ok = empty program)", "garble_lang::Error::prettify -> empty String"], est_gb=2)
H("state", "c16_leader_ends_when_a_follower_refuses", needs_segment=["sc_leader_rpcs"],
  what="leader: a refused validate round -> ValidateFailed to the schedule caller, Break, no permit, no run requested, nothing sent", bounds="validate round fails; run round arbitrary", functions=["state::PolicyState::schedule (leader branch behind the creation of the validate futures)"], panic_prop="C16", stubs=[RS], est_gb=3)


# C14: the other states of a scheduled policy (constructors generated from the enum's field lists)
_SC_STATES = [("awaiting_validation", "AwaitingValidation"), ("validated", "Validated"), ("sending_consts", "SendingConsts"), ("sending_consts_completed", "SendingConstsCompleted"), ("running", "Running")]
_SC_QUICK = {"c14_schedule_duplicate_in_validated", "c14_schedule_duplicate_in_running", "c14_validate_stray_in_validated", "c14_consts_stray_in_awaiting_validation"}
for _low, _var in _SC_STATES:
    _n = f"c14_schedule_duplicate_in_{_low}"
    H("state", _n, needs_segment=["sc_schedule", f"sc_{_low}_ctor"], tier="quick" if _n in _SC_QUICK else "thorough",
      what=f"schedule() while {_var}, as leader and as follower: InvalidState on the caller's reply channel only, same state, endpoints untouched, Continue", bounds=f"party < 3, leader/follower symbolic, state {_var} (empty program, two peers' endpoints)", functions=["state::PolicyState::schedule (after the type check)"], panic_prop="C14", stubs=[RS], est_gb=3)
    if _low != "awaiting_validation":
        _n = f"c14_validate_stray_in_{_low}"
        H("state", _n, needs_segment=["sc_validate", f"sc_{_low}_ctor"], tier="quick" if _n in _SC_QUICK else "thorough",
          what=f"validate() while {_var}: InvalidState on the caller's reply channel only, same state, endpoints untouched, Continue", bounds=f"any leader index, state {_var}", functions=["state::PolicyState::validate (whole body)"], panic_prop="C14", stubs=[RS], est_gb=3)
for _low, _var in (("awaiting_validation", "AwaitingValidation"), ("running", "Running")):
    _n = f"c14_consts_stray_in_{_low}"
    H("state", _n, needs_segment=["sc_consts", f"sc_{_low}_ctor"], tier="quick" if _n in _SC_QUICK else "thorough",
      what=f"consts() while {_var}: InvalidState, nothing inserted, same state, endpoints untouched, pending callers unanswered, Continue", bounds=f"any sender index, state {_var}", functions=["state::PolicyState::consts (whole body)"], panic_prop="C14", stubs=[RS], est_gb=4)


# C13 (partial): result delivery step of the MPC task
for _n, _w in (("c13_mpc_result_is_delivered_once", "mpc() returned output bits, destination present: exactly one notification, the result; then Stop"), ("c13_mpc_error_is_delivered_once", "mpc() failed, destination present: exactly one notification, the error; then Stop"), ("c13_mpc_result_without_destination", "no destination: nothing sent; Stop"), ("c13_mpc_error_without_destination", "mpc() failed, no destination: nothing sent; Stop")):
    H("state", _n, needs_segment=["sc_mpc_result"], what="MPC task behind polytune::mpc(): " + _w, bounds="one concrete mpc() outcome per harness (Ok([true]) / Err(EmptyMsg)); output decoding = stand-in", functions=["state::PolicyState::run (spawned MPC task behind the call of polytune::mpc)"], panic_prop="C13", stubs=[RS, "GarbleProgram::parse_output -> Ok(Literal::True)"], est_gb=2)


# C15: cancel() as a single command against the other states
_C15 = [("c15_cancel_in_init", "Init", [], "quick"), ("c15_cancel_in_validate_requested", "ValidateRequested", ["sc_validate_requested_ctor"], "thorough"),
        ("c15_cancel_in_validated_with_destination", "Validated, destination present", ["sc_validated_ctor"], "quick"),
        ("c15_cancel_in_validated_without_destination", "Validated, no destination", ["sc_validated_ctor"], "quick"),
        ("c15_cancel_in_running_with_destination", "Running, destination present", ["sc_running_ctor"], "thorough")]
for _n, _s, _c, _t in _C15:
    H("state", _n, needs_segment=["sc_cancel", "sc_send_cancel"] + _c, tier=_t,
      what=f"cancel() against a machine in state {_s} that holds a permit: answered exactly once; if Ok, the destination of a scheduled policy got exactly one Cancelled notification (none without destination / policy); nothing enqueued; the permit is returned", bounds=f"state {_s}; one cancel command", functions=["state::PolicyState::cancel (whole body; awaits polled once)", "state::send_cancel (whole body)"], panic_prop="C15", stubs=[RS], est_gb=3)


for _o in ("with", "without"):
    H("state", f"c15_task_cancel_arm_{_o}_destination", needs_segment=["sc_task_cancel_arm", "sc_send_cancel"],
      what="the spawned MPC task when the cancel notification wins its select!: exactly one Cancelled notification if there is a destination, the acknowledgement towards cancel() is given only AFTER that notification and exactly once", bounds=f"policy {_o} output destination; tokio::sync::Notify is the real one", functions=["state::PolicyState::run (cancel arm of the task's select! and what follows the select!)", "state::send_cancel (whole body)"], panic_prop="C15", stubs=[RS], est_gb=2)


H("state", "c17_run_entry_keeps_the_permit", needs_segment=["sc_run_head", "sc_validated_ctor"],
  what="whatever run() does before dispatching on the state neither takes the permit out of the machine nor returns it (run() is entered first in state Validated, long before the MPC task takes the permit over)", bounds="state Validated holding a permit", functions=["state::PolicyState::run (statements before the match on the state; none on the pinned tree)"], panic_prop="C17", stubs=[RS], est_gb=2)


for _n, _w in (("c15_nothing_can_follow_the_result", "Ok([true])"), ("c15_nothing_can_follow_the_error", "Err(EmptyMsg)")):
    H("state", _n, needs_segment=["sc_mpc_result_then"],
      what="the task's mpc future behind polytune::mpc(), with the actor's command queue full: the notification is sent and the future then finishes without another await (no point at which the select! could still switch to the cancel arm and send a second notification)", bounds=f"mpc() outcome {_w}, destination present, command queue full (enqueue pending for good)", functions=["state::PolicyState::run (mpc future of the spawned task behind the call of polytune::mpc)"], panic_prop="C15", stubs=[RS], est_gb=2)


for _low, _var, _t in (("validated", "Validated", "quick"), ("sending_consts", "SendingConsts", "thorough"), ("sending_consts_completed", "SendingConstsCompleted", "thorough")):
    H("state", f"c14_consts_sender_index_in_{_low}", needs_segment=["sc_consts", f"sc_{_low}_ctor"], tier=_t,
      what=f"consts() while {_var} with any sender index: an index outside the policy's participants is answered with an error, nothing is stored, no compilation is triggered, state kept; an index inside is accepted", bounds=f"two participants, any usize sender index, state {_var}", functions=["state::PolicyState::consts (whole body)"], panic_prop="C14", stubs=[RS], est_gb=4)


def by_prefix(*prefixes, tier=None):
    return [h for n, h in ALL.items() if any(n.startswith(p) for p in prefixes) and (tier is None or h["tier"] == tier)]


PROPS = {}

PROPS["C01"] = dict(
    level="model_checking",
    level_text="Bounded model checking of (a) the batch/chunk arithmetic all parties use to agree on batch boundaries for all counts < 2^40, (b) the real producer loops (init_and_shares, garbler gate streaming) cut from the source with the batch size as a live-in so that batch boundaries are crossed with 3-5 AND gates: the chunks they emit are exactly chunk_size_iter(and_ops, batch), (c) the authenticated garbled table of one AND gate on both sides composed with the evaluator's AND arm, for all share/MAC/key/global-key values.",
    level_note="Partial: per-gate and per-batch steps, n=2. Not covered: whole-circuit share propagation end to end, role assignments through the async send/receive layer, tmp_dir (file) variant, n>2.",
    explanation="Kani/CBMC over Context::new + batch-size methods + chunk_size_iter with symbolic totals.",
    outside="totals < 2^40; at most 10 chunks (implied by the batch-size lemma); small-value iterator class total<=24/chunk<=8.",
    assumptions=[FMT, TRACING, "flush pattern 'push; if len >= batch flush; ...; if !empty flush' re-stated in c01_flush_pattern_matches_chunk_iter"],
    harnesses=[h for h in by_prefix("c01_") if not h["name"].endswith("__c10")] + hs("c03_evaluate_and_arm_n2_row0__c01", "c03_evaluate_and_arm_n2_row3__c01", "c02_output_tail_n2_regs01__c01", "c02_output_tail_n2_regs11__c01"),
    segments=["output_tail", "evaluate_and_arm_n3", "evaluate_loop", "garble_garbler_full", "init_and_shares_loop", "garbler_loop", "garbler_rows", "evaluator_rows", "garbler_row_labels", "evaluate_and_arm"],
)

PROPS["C02"] = dict(
    level="model_checking",
    level_text="Bounded model checking of the acceptance decisions an honest output party takes on adversarial openings: the output-opening tail of output() and the d-value opening of the bucket-combination step, cut from the async functions on every run, with the peer's message arbitrary: Ok implies presence + valid MAC of every peer contribution and the exact output formula.",
    level_note="Partial: n=2, one honest party's acceptance steps for output shares and d-values. Not covered: substitution semantics over whole adversarial runs, agreement between several honest output parties, OT/hash/AEAD. " + SEG,
    explanation="Segment harnesses over output() tail and check_dvalue() tail.",
    outside="n=2; max_reg_count=2; one bucket of 3; message *sequences* and cryptographic primitives are outside.",
    assumptions=[FMT, TRACING, SEG, N2],
    segments=["output_tail", "check_dvalue_tail", "output_label_check"],
    harnesses=hs("c02_output_tail_n2_regs01", "c02_output_tail_n2_regs11", "c02_output_tail_n2_regs10", "c04_check_dvalue_tail_n2_b3__c02", "c03_output_label_check_n2_regs01__c02", "c03_output_label_check_n2_regs11__c02", "c02_output_tail_n3", "c04_check_dvalue_tail_n3_b2"),
)

PROPS["C03"] = dict(
    level="model_checking",
    level_text="Bounded model checking of the online-phase MAC / label checks at the consuming party (input mask shares, conflicting input masks, output-wire shares, evaluator's revealed value+label): for every forged field value the cut segment returns Err - Ok implies the authentication relation.",
    level_note="Partial: n=2, per-check inductive step on cut segments. Not covered: AEAD tag check (symbolic ChaCha20-Poly1305), garbled-row share check inside evaluate() [see C08/C03 evaluate segment if listed], equivocation across recipients (broadcast). " + SEG,
    explanation="Segment harnesses over input_processing() and output().",
    outside="n=2; <=3 registers; cryptographic primitives outside.",
    assumptions=[FMT, TRACING, SEG, N2],
    segments=["ip_mid", "ip_post", "output_tail", "output_label_check", "evaluate_and_arm", "bcast_verify_tail"],
    harnesses=hs("c04_bcast_verify_tail_n3__c03", "c03_ip_mid_n2", "c03_ip_mid_n3", "c03_ip_post_n2", "c03_output_label_check_n2_regs01", "c03_output_label_check_n2_regs11", "c02_output_tail_n2_regs11__c03", "c02_output_tail_n2_regs01__c03") + [h for h in by_prefix("c03_evaluate_and_arm") if "__" not in h["name"]],
)

PROPS["C04"] = dict(
    level="model_checking",
    level_text="Bounded model checking of the detection branches of preprocessing at the receiving party, plus the commit-before-reveal order of the pairwise coin toss (aBit check, aShare step 3c bit validity, aShare step 3d MAC-sum check, leaky-AND XOR check, d-value MACs, Beaver d/e MACs, verified-broadcast echo comparison, KOS correlation check): Ok implies the checked relation, for every value a peer can send.",
    level_note="Partial: detection branches only (n=2, n=3 for the broadcast), cut segments with BLAKE3 verdicts and the carry-less product arbitrary and the statistical parameter lowered to 2 inside the aShare segments. Commit-before-reveal is covered for ONE place, the pairwise coin toss that seeds the OT sessions (whole function body, rounds as environment futures that separate sent from received; n=2 quick, n=3 thorough). Not covered: the same ordering in the multi-party coin toss (its whole-body cut exhausted memory), in aShare/LaAND, challenge-after-data and coin reuse (message histories across functions), that the commitments bind (hash). " + SEG,
    explanation="Segment harnesses over check_dvalue, fashare (3c, 3d), beaver_aand.",
    outside="n=2 (n=3 for the broadcast, one d-value variant and the thorough coin-toss variant); orderings other than the pairwise coin toss, and coin reuse, are outside.",
    assumptions=[FMT, TRACING, SEG, N2, "open_commitment(..) -> arbitrary bool inside the fashare_3d segment (textual substitution)", "RHO shadowed by a local const 2 inside the fashare segments"],
    segments=["check_dvalue_tail", "fashare_3c", "fashare_3d", "beaver_check", "bcast_verify_tail", "flaand_tail", "fabitn_check", "kos_check", "shared_rng_open", "shared_rng_pairwise_order", "fpre_cheat_check"],
    harnesses=hs("c04_check_dvalue_tail_n2_b3", "c04_check_dvalue_tail_n3_b2", "c07_fashare_3c_n2__c04", "c04_fashare_3d_n2", "c04_beaver_check_n2", "c04_bcast_verify_tail_n3", "c04_flaand_tail_n2", "c04_fabitn_check_n2", "c04_kos_check", "c04_shared_rng_open_n2", "c04_beaver_check_n4", "c04_shared_rng_pairwise_commit_before_reveal_n2", "c04_shared_rng_pairwise_commit_before_reveal_n3"),
)

PROPS["C05"] = dict(
    level="model_checking",
    level_text="Bounded model checking of who is addressed with what: the recipient sets of both send rounds of output() are exactly p_out without the sender; the messages built for a recipient carry Some only at output registers and only that recipient's MAC / label; a non-output party gets an empty result; mask shares of input wires are addressed to the wire owner only.",
    level_note="Partial: the message-building closures and recipient expressions of output() and the send side of input sharing, cut from the source. Not covered: that nothing else is sent after input processing by other code paths (whole-run traffic), n>3. " + SEG,
    explanation="Segment harnesses over output() tail and input_processing() head.",
    outside="n<=3; message order and the evaluator's 'lambda' round see harness list.",
    assumptions=[FMT, TRACING, SEG],
    segments=["output_tail", "ip_pre", "output_share_msg", "output_lambda_msg", "output_share_recipients", "output_lambda_recipients"],
    harnesses=hs("c05_output_tail_non_output_party_gets_nothing", "c05_ip_pre_n3", "c05_output_share_msg_n3", "c05_output_lambda_msg_n3", "c05_output_recipients"),
)

PROPS["C06"] = dict(
    level="model_checking",
    level_text="Bounded model checking of the structural half of C06: the revealed input bit is input XOR a mask that contains the party's own mask share; that own share is placed in no outgoing message; the own mask-share bits and the global key are each their own random() draw (random() modelled as a sequence of arbitrary values).",
    level_note="Partial: structure only. NOT claimed: uniformity/balance of the revealed bit, freshness across executions, absence of plain input runs in the traffic (statements about distributions over coin tosses; a solver treats the RNG as unconstrained environment). " + SEG,
    explanation="Segment harnesses over input_processing(), fn_independent_pre() and fabitn() step 1.",
    outside="n<=3; distributional statements.",
    assumptions=[FMT, TRACING, SEG, "rand::random() = the k-th of a fixed number of arbitrary values (textual substitution inside the cut)"],
    segments=["ip_mid", "ip_pre", "delta_draw", "fabitn_head"],
    harnesses=by_prefix("c06_"),
)

PROPS["C07"] = dict(
    level="model_checking",
    level_text="Bounded model checking of two places where a value offset by the global key leaves an honest party: the opening rule of aShare step 3c (d0 ^ delta only for a claim whose MAC verifies under the own key) and the input-label selection (exactly one label per wire, label0 ^ masked bit * delta).",
    level_note="Partial: decides the opening rule of aShare step 3c (n=2) - which is violated on the pinned tree (known finding). Not covered: secrecy against pooled views over whole runs, label hygiene in garble/evaluate, OT masks. " + SEG,
    explanation="Segment harness over fashare() step 3c.",
    outside="information-flow over whole executions is outside the technique's reach.",
    assumptions=[FMT, TRACING, SEG, N2, "RHO shadowed by a local const 2 inside the segment"],
    segments=["fashare_3c", "ip_labels", "garble_garbler_full"],
    harnesses=hs("c07_fashare_3c_n2", "c07_ip_labels_one_label_per_wire", "c07_garble_input_labels_are_fresh_draws"),
)

PROPS["C08"] = dict(
    level="model_checking",
    level_text="Bounded model checking that hostile bytes and ill-shaped (well-typed) messages give Ok/Err, never a panic: the real bincode decoder for the engine's wire types over every byte string of the stated length (all 2^64 length prefixes, allocation sizes checked), and every cut protocol segment over arbitrary inner lengths / Option patterns.",
    level_note="Partial: decoding layer + the panic-freedom of the cut segments. Not covered: vanishing peers, hangs, bounded time (async/concurrency). " + SEG,
    explanation="Kani/CBMC on utils::serde::deserialize and on all segment harnesses (generic CBMC failures are attributed to C08).",
    outside="byte strings of length 8, 9, 12 (18/25 in thorough); <= (N-8)/elem elements. Wire types whose decoder did not finish inside 24 GB / 20 min at 12 bytes are NOT covered: Vec<Block>-tuples, Vec<GarbledGate>, Vec<Commitment>(-tuples) (32-byte array visitors).",
    assumptions=[FMT, TRACING, SEG],
    segments=["check_dvalue_tail", "fashare_3c", "fashare_3d", "ip_mid", "ip_post", "output_tail", "output_label_check", "beaver_check", "evaluate_and_arm", "recv_vec_len_check", "scatter_len_precheck", "bcast_verify_tail", "flaand_tail", "fabitn_check", "kos_check", "ip_labels", "output_share_msg", "output_lambda_msg", "ip_pre"],
    harnesses=[h for h in by_prefix("c08_")] + hs("c09_ip_pre_pattern_independent_of_shares", "c03_ip_mid_n3", "c04_check_dvalue_tail_n3_b2", "c04_check_dvalue_tail_n2_b3", "c07_fashare_3c_n2", "c04_fashare_3d_n2", "c03_ip_mid_n2", "c03_ip_post_n2", "c02_output_tail_n2_regs11", "c03_output_label_check_n2_regs01", "c04_beaver_check_n2", "c04_bcast_verify_tail_n3", "c04_flaand_tail_n2", "c04_fabitn_check_n2", "c04_kos_check", "c05_output_share_msg_n3", "c05_output_lambda_msg_n3", "c07_ip_labels_one_label_per_wire") + [h for h in by_prefix("c03_evaluate_and_arm") if "__" not in h["name"]],
)

PROPS["C09"] = dict(
    level="model_checking",
    level_text="2-safety by self-composition on the real serializer: for each wire type and shape the encoded length is identical for all secret leaf values and equals the fixed-width closed form; the AEAD key/nonce derivation is fixed-size and injective.",
    level_note="Partial: encoding layer only. Not covered: which messages are sent in which order, which Option slots are Some, ciphertext length (symbolic AEAD), data-dependent early exits in async code.",
    explanation="Kani/CBMC on utils::serde::serialize (bincode legacy) and garble::key_and_nonce.",
    outside="vector lengths <= 3; fixed Option pattern per query.",
    assumptions=[FMT, TRACING],
    harnesses=by_prefix("c09_"),
    segments=["ip_pre", "encrypt_plaintext_len"],
)

PROPS["C10"] = dict(
    level="model_checking",
    level_text="Bounded model checking of the algebraic core of preprocessing with all bits, MACs, keys and global keys symbolic at full 128-bit width: share XOR, key helpers, bucket size table, the bucket-combination step as an inductive step (covers buckets of any size), the fold order, the bit/element pairing of the aBit linear-combination helper, Beaver reconstruction; the trusted dealer (fpre): c = AND of the inputs reconstructed from ALL parties (n = 2..5), dealt shares XOR to c and carry pairwise-valid MACs (n = 2, 3).",
    level_note="Partial: algebraic core + the trusted dealer's synchronous loops (one share / one gate each). Not covered: aBit/aShare/LaAND end to end (OT, hashes, async), the dealer's message rounds and its length agreement checks, identical shared coins.",
    explanation="Kani/CBMC on data_types operators, combine_two_leaky_ands, combine_bucket, bucket_size, chunked_update_with_rbits, beaver tail segment.",
    outside="n <= 3 (4 for XOR); stated length classes of chunked_update_with_rbits.",
    assumptions=[FMT, TRACING, "pairwise IT-MAC relation assumed on inputs (representation invariant)", SEG],
    segments=["beaver_check", "beaver_final", "check_dvalue_tail", "garbler_rows", "evaluator_rows", "garbler_row_labels", "fabitn_result", "faand_combine", "fashare_3a", "fashare_3c", "fashare_3d", "fpre_and_plain", "fpre_and_deal", "fpre_random_deal"],
    harnesses=by_prefix("c10_") + hs("c04_beaver_check_n4__c10", "c04_beaver_check_n2__c10", "c04_check_dvalue_tail_n2_b3__c10", "c07_fashare_3c_n2__c10", "c01_and_gate_table_n2__c10"),
)

PROPS["C11"] = dict(
    level="model_checking",
    level_text="Bounded model checking of the length/packing/byte-order layer of OT extension (choice-bit packing for every residue mod 8, the big-endian Block<->u128 convention shared with delta) and of the correlated-OT output stage: the sender's and the receiver's output loops, cut from the source and composed, give received = x0 ^ (choice & delta) at every index.",
    level_note="Partial: packing, byte order, output stage (3 transfers) with the ALSZ matrix correlation assumed and the TCCR hash an arbitrary function. Not covered: base OT, matrix generation/transposition shapes for every length, session sequencing. " + SEG,
    explanation="Kani/CBMC on boolvec_to_u8vec/u8vec_to_boolvec/block_to_u128.",
    outside="lengths {0,1,7,8,9,15,16,17,31,33,63,64}.",
    assumptions=[FMT, TRACING, "ALSZ correlation of the transposed matrices (t_j = q_j ^ choice_j * s) assumed in the output-stage harness", "AesHash::tccr_hash_block replaced by an arbitrary function on the evaluated points"],
    harnesses=by_prefix("c11_"),
    segments=["kos_send_corr", "kos_recv_corr"],
)

PROPS["C18"] = dict(
    level="model_checking",
    level_text="Bounded model checking of the real validate() through the real Context::new over a fully symbolic circuit description and argument tuple: no panic, and Ok implies every documented argument condition; plus panic-freedom of input sharing for misplaced Input instructions.",
    level_note="Trusted: Kani's MIR->goto translation and CBMC; size bounds (<=3 parties/instructions, <=2 outputs), all index values full width. 'before sending any message' is decided on the statements of _mpc() in front of its first await (cut from the source).",
    explanation="Kani/CBMC on protocol::validate + input_processing head segment.",
    outside="parties<=3, input_regs[p]<=2, <=3 instructions, max_reg_count<=3, <=2 output regs, |inputs|<=3, |p_out|<=3.",
    assumptions=[FMT, TRACING, SEG],
    segments=["ip_pre", "mpc_head"],
    harnesses=hs("c18_validate_ok_implies", "c05_ip_pre_n3", "c18_mpc_head_rejects_before_first_await"),
)

PROPS["C20"] = dict(
    level="model_checking",
    level_text="Full-width / bounded model checking of the GF(2) arithmetic and the portable transposition against their definitions: reduction over all 2^256 inputs on both paths; scalar clmul64 and clmul128 for ALL operands (MIR->SMT: 25 product lemmas on real 128-bit bvmul + bit-level composition, cross-checked by a second solver); carry-less multiply on basis x full on both paths; portable transpose for every input of the stated shapes; the structure of the AES-based hashes with the permutation an arbitrary function.",
    level_note="Partial: that pi is AES-128 under the fixed key and the AES generator are NOT covered (symbolic AES); the AVX2 butterfly is not covered (only the data movement of its rest-column path, thorough tier); transposition only shapes 16x16 (+16x24, 32x16 thorough). SIMD instructions replaced by Intel's definitions.",
    explanation="Kani/CBMC on block::gf128::{scalar,clmul} and transpose::portable.",
    outside="transpose shapes 16x16/16x24/32x16 (portable), 256x16 rest-column addressing (AVX2, thorough); AES itself; AesRng.",
    assumptions=[FMT, TRACING, "_mm_clmulepi64_si128 and _mm_sll_epi64 replaced by their Intel SDM definitions", "bilinearity of the recombination is a structural (paper) argument: XOR/shift of bilinear products"],
    harnesses=by_prefix("c20_"),
    segments=["cr_hash_block_body", "tccr_hash_block_body", "avx2_rest_cols"],
    extra=["e2.run:c20_queries"],
    uses_e2=True,
)

# ---------------------------------------------------------------------------------------------
# Properties not claimed, with the one-line reason (DESIGN.md §3).
PROPS["C14"] = dict(
    level="model_checking",
    level_text="Bounded model checking of the decision points of the server-core state machine at which a stray command is judged: msg() up to its forwarding send, schedule() after the type check, validate() and consts() - the statement runs are cut out of the async handlers on every run and executed on the real PolicyStateKind in every state in which the command is invalid (Init, ValidateRequested, AwaitingValidation, Validated, SendingConsts, SendingConstsCompleted, Running, Executing; quick tier: a subset): the command is answered with an InvalidState / Unreachable error, the state and the MPC channel endpoints are left as they are, and the handler returns Continue without panicking.",
    level_note="Partial: one command against one state (inductive step; states holding a policy use the empty program and two peers). Not covered: which states run() sends into its invalid-state arm (only that arm's body is cut: the other arms contain async closures), states that hold a Garble TypedProgram beyond the empty program, the HTTP route, and that the computation's OUTPUT is unchanged (a whole-run statement; the check shows state, endpoints and control flow are unchanged). " + SEG,
    explanation="Kani/CBMC on statement runs cut from state.rs (msg, schedule, validate, consts).",
    outside="interleavings of several commands; the dispatch of run(); non-empty programs / constants in the pre-state.",
    assumptions=[FMT, TRACING, RS, ANS, ENVST],
    harnesses=by_prefix("c14_"),
    segments=["sc_msg_head", "sc_schedule", "sc_validate", "sc_consts", "sc_run_fallback", "sc_executing_ctor", "sc_awaiting_validation_ctor", "sc_validated_ctor", "sc_sending_consts_ctor", "sc_sending_consts_completed_ctor", "sc_running_ctor"],
)
PROPS["C16"] = dict(
    level="model_checking",
    level_text="Bounded model checking of the refusal of an ill-typed program at the head of schedule(), of the leader's reaction to a refused validate round, and of the two places where a follower compares the leader's validate request with its own policy (validate() in AwaitingValidation, schedule() in ValidateRequested - both arrival orders), cut from the async handlers on every run: with a different leader or program hash the leader's validate call gets an error, the follower's schedule call is never answered Ok and the handler returns Break (the state machine ends before run/consts/MPC traffic can start); with equal leader and hash both calls get Ok exactly once and the policy is Validated.",
    level_note="Partial: the follower-side comparison for both arrival orders. Not covered: the Garble type checker itself (its verdict is arbitrary), the absence of MPC messages as a whole-run statement, n>3. " + SEG,
    explanation="Kani/CBMC on statement runs cut from state.rs (validate, schedule).",
    outside="program hash modelled as two distinct one-byte strings; leader indices < 3.",
    assumptions=[FMT, TRACING, RS, ANS, ENVST, "Policy::program_hash() (BLAKE3, cpuid dispatch) replaced by a harness-chosen string; the comparison is the subject"],
    harnesses=by_prefix("c16_"),
    segments=["sc_schedule", "sc_validate", "sc_schedule_head", "sc_leader_rpcs"],
)
PROPS["C17"] = dict(
    level="model_checking",
    level_text="Bounded model checking of the second sentence of C17 at its decision points: what the leader's schedule() does with the joined result of the validate round and of the run round, and what the constants task of run() does with the joined result of the constants round - cut from the async code on every run, the round results arbitrary, with and without an output destination: a failed round ends the policy at the caller (Break / Stop), the permit taken before the run round is returned, the output destination gets exactly one error if there is one; successful rounds keep exactly one permit and hand over to run().",
    level_note="Partial: the three RPC-failure decision points. NOT covered: the first sentence (never more concurrent leader computations than the budget; the whole budget available after quiescence) - a statement about tokio's Semaphore across tasks and about all ways a policy can end (MPC error, cancel), see not-applicable reasons of C13/C15. " + SEG,
    explanation="Kani/CBMC on statement runs cut from state.rs (schedule leader branch, constants task of run).",
    outside="permit accounting over whole runs and several policies; failures inside the MPC task; cancel.",
    assumptions=[FMT, TRACING, RS, ANS, ENVST, POLL],
    harnesses=by_prefix("c17_"),
    segments=["sc_leader_rpcs", "sc_consts_task", "sc_run_head"],
)
PROPS["C15"] = dict(
    level="model_checking",
    level_text="Bounded model checking of (a) cancel() as a single command against a machine in the states Init, ValidateRequested, Validated and Running ( whole body of cancel() and send_cancel() cut, awaits polled once): answered exactly once, and once it answers Ok the destination of a scheduled policy has been sent exactly one Cancelled notification, nothing is enqueued, the machine and its permit are gone; (b) one schedule point on tokio's real Notify: the arm of cancel() for state Executing, cut from the async function on every run (await = one poll, the cut stops at a pending await), run against an MPC task that has been spawned but not polled yet - cancel() neither completes nor answers Ok before the task acknowledges, and the cancel notification is not lost (the task finds it when it registers); after the acknowledgement cancel() answers Ok exactly once.",
    level_note="Partial: cancel as ONE command from a quiescent machine per state, plus ONE schedule point in Executing (cancel processed right after the MPC task was spawned - the race the property text names) and its counterpart. Also the task's side of a cancellation (cancel arm of its select! + what follows): notification first, acknowledgement after, once. NOT covered: states AwaitingValidation, SendingConsts, SendingConstsCompleted (the drop of the rest of the state does not finish under CBMC), cancel racing with a handler in flight, a cancel that wins the select! while the result notification itself is in flight, the task side (tokio::select!), 'exactly one notification, nothing afterwards' and the permit as whole-run statements, multi-threaded runtimes. " + SEG,
    explanation="Kani/CBMC on the Executing arm of cancel() with tokio::sync::Notify compiled in.",
    outside="all other interleavings of cancel with the actor and the MPC task.",
    assumptions=[FMT, TRACING, ANS, "await = one poll with a no-op waker; a pending await ends the cut (EnvTry)"],
    harnesses=by_prefix("c15_"),
    segments=["sc_cancel_executing", "sc_cancel", "sc_send_cancel", "sc_task_cancel_arm", "sc_mpc_result_then"],
)
PROPS["C13"] = dict(
    level="model_checking",
    level_text="Bounded model checking of ONE step of C13: what the spawned MPC task does with the outcome of polytune::mpc() - cut from the async code on every run (awaits polled once): a party with an output destination is sent exactly one notification (the result on success, the error on failure), a party without one nothing, and the task then tells the actor to stop exactly once.",
    level_note="Partial: the result-delivery step only. NOT covered: everything C13 quantifies over - arrival orders of schedule calls, delivery orders of the coordination RPCs, that the delivered value equals the program evaluated in the clear, that every schedule call returns Ok, the permit after the stop (see C17 / not-applicable reasons: interleavings of tokio actors are outside the technique). " + SEG,
    explanation="Kani/CBMC on the statement run behind polytune::mpc() in the spawned task of run().",
    outside="all interleavings; correctness of the delivered value; parties whose mpc() output is empty.",
    assumptions=[FMT, TRACING, RS, POLL, "compiled.parse_output() replaced by a stand-in that returns Ok(Literal::True)"],
    harnesses=by_prefix("c13_"),
    segments=["sc_mpc_result"],
)
NOT_APPLICABLE = {
    "C12": "a property of interleavings of several parties' futures; Kani has no concurrency model and the join/scatter layer alone exhausts memory",
    "C19": "the file variant is tempfile + BufWriter/BufReader over one shared OS file offset with seek in Drop; Kani has no file-system model",
}
