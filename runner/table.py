"""Per-property tables: which harnesses / queries decide which obligations."""

FMT = "std::fmt::format -> empty String (error messages are not the subject)"
TRACING = "tracing/tracing-attributes replaced by a no-op stand-in in the scratch copy (logging = empty bodies)"

PROPS = {}

MODS = {
    "protocol": "mpc::protocol",
    "faand": "mpc::faand",
    "data_types": "mpc::data_types",
    "garble": "mpc::garble",
    "gf128": "block::gf128",
    "transpose": "transpose",
    "alsz": "ot_core::alsz",
    "kos": "ot_core::kos",
    "ot": "ot",
    "serde": "utils::serde",
    "channel": "channel",
    "aes_rng": "crypto::aes_rng",
    "fpre": "mpc::fpre",
    "file_or_mem_buf": "utils::file_or_mem_buf",
}


def H(mod, name, **kw):
    d = dict(name=name, full=f"{MODS[mod]}::__verif::{name}", mod=mod)
    d.update(kw)
    return d


PROPS["C18"] = dict(
    level="model_checking",
    explanation="Bounded model checking (Kani/CBMC) of the real protocol::validate through the real Context::new over a fully symbolic circuit description and argument set.",
    outside="parties<=3, input_regs[p]<=2, <=3 instructions, max_reg_count<=3, <=2 output regs, |inputs|<=3, |p_out|<=3; all indices full width. 'before sending any message' rests on _mpc calling validate before its first await (checked textually, see assumptions).",
    assumptions=[FMT, TRACING],
    level_text="Bounded model checking: for every circuit description and argument tuple inside the stated size bounds (all index values full width) CBMC proves that validate() cannot panic and that Ok implies every documented argument condition; counterexamples are replayed natively before being reported.",
    level_note="Trusted: Kani's MIR->goto translation and CBMC; bounds on sizes (<=3 parties/instructions, <=2 outputs); format!() stubbed; logging no-op. Whether mpc() sends nothing before validate() is a textual check of _mpc.",
    harnesses=[
        H(
            "protocol",
            "c18_validate_ok_implies",
            what="validate() never panics; Ok => p_own,p_eval,p_out[i] < parties, p_out non-empty, inputs.len()==input_regs[p_own], Circuit::validate()==Ok",
            bounds="parties 0..=3, insts 0..=3 (all opcodes, all u32 registers), max_reg_count 0..=3, outputs 0..=2, and_ops any usize, p_own/p_eval/p_out[i] any usize",
            functions=["mpc::protocol::validate", "mpc::protocol::Context::new", "garble_lang::register_circuit::Circuit::validate"],
            timeout=1200,
        ),
    ],
)


# ---------------------------------------------------------------------------------------------
# Properties not claimed, with the one-line reason (DESIGN.md §3). Entries for claimed
# properties are ignored by gen_manifest.
NOT_APPLICABLE = {
    "C01": "under construction in this session (batch/chunk agreement harnesses)",
    "C02": "every acceptance decision is inline in async functions that Kani 0.68 cannot compile (async closures) and that exhaust memory after normalisation; quantifies over adversarial message sequences through OT, hashing and AEAD",
    "C03": "same code as C02; the AEAD-tag obligation needs symbolic ChaCha20-Poly1305",
    "C04": "detection branches live in async preprocessing functions; commit-before-reveal and challenge-after-data are orderings over message histories of concurrent parties, and BLAKE3/ChaCha20 would have to be symbolic",
    "C05": "the whole property is the send pattern of output(), which contains async closures (Kani ICE) and did not finish after manual normalisation",
    "C06": "a statement about the distribution of the transcript over coin tosses and freshness across executions; a solver treats the RNG as unconstrained environment and cannot express balance or reuse",
    "C07": "secrecy against pooled adversarial views over whole runs (information flow through OT/hash/AEAD outputs)",
    "C08": "under construction in this session (decoder harnesses)",
    "C09": "under construction in this session (encoding-length harnesses)",
    "C10": "under construction in this session (share algebra harnesses)",
    "C11": "under construction in this session (packing / byte-order harnesses)",
    "C12": "a property of interleavings of several parties' futures; Kani has no concurrency model and the join/scatter layer alone exhausts memory",
    "C13": "polytune-server-core is a tokio actor (mpsc/oneshot/Notify/Semaphore, spawn, Garble compiler); Kani models neither tokio's channels in feasible size nor any interleaving",
    "C14": "same actor code; the handlers cannot be executed symbolically (tokio send().await on both paths)",
    "C15": "same actor code; cancellation races are interleavings of tokio tasks",
    "C16": "same actor code; needs the Garble compiler and RPC delivery orders",
    "C17": "same actor code; semaphore permits across tokio tasks and failure injection into RPCs",
    "C19": "the file variant is tempfile + BufWriter/BufReader over one shared OS file offset with seek in Drop; Kani has no file-system model",
    "C20": "under construction in this session (GF(2) arithmetic and transposition harnesses)",
}
