"""Per-property tables: which harnesses / queries decide which obligations."""

FMT = "std::fmt::format -> empty String (error messages are not the subject)"
TRACING = "tracing/tracing-attributes replaced by a no-op stand-in in the scratch copy (logging = empty bodies)"

PROPS = {}

MODS = {
    "protocol": "mpc::protocol",
    "faand": "mpc::faand",
    "data_types": "mpc::data_types",
    "garble": "mpc::garble",
    "gf128": "block::gf128",
    "transpose": "transpose",
    "alsz": "ot_core::alsz",
    "kos": "ot_core::kos",
    "ot": "ot",
    "serde": "utils::serde",
    "channel": "channel",
    "aes_rng": "crypto::aes_rng",
    "fpre": "mpc::fpre",
    "file_or_mem_buf": "utils::file_or_mem_buf",
}


def H(mod, name, **kw):
    d = dict(name=name, full=f"{MODS[mod]}::__verif::{name}", mod=mod)
    d.update(kw)
    return d


PROPS["C18"] = dict(
    level="model_checking",
    explanation="Bounded model checking (Kani/CBMC) of the real protocol::validate through the real Context::new over a fully symbolic circuit description and argument set.",
    outside="parties<=3, input_regs[p]<=2, <=3 instructions, max_reg_count<=3, <=2 output regs, |inputs|<=3, |p_out|<=3; all indices full width. 'before sending any message' rests on _mpc calling validate before its first await (checked textually, see assumptions).",
    assumptions=[FMT, TRACING],
    harnesses=[
        H(
            "protocol",
            "c18_validate_ok_implies",
            what="validate() never panics; Ok => p_own,p_eval,p_out[i] < parties, p_out non-empty, inputs.len()==input_regs[p_own], Circuit::validate()==Ok",
            bounds="parties 0..=3, insts 0..=3 (all opcodes, all u32 registers), max_reg_count 0..=3, outputs 0..=2, and_ops any usize, p_own/p_eval/p_out[i] any usize",
            functions=["mpc::protocol::validate", "mpc::protocol::Context::new", "garble_lang::register_circuit::Circuit::validate"],
            timeout=1200,
        ),
    ],
)
