"""Cut synchronous segments out of the real (async) functions of /repo's current source.

Kani 0.68 cannot compile any function that contains an `async |..|` closure and cannot finish
the join/scatter layer (DESIGN.md §2).  But the protocol's decision points - every
`if mac != key ^ .. { return Err }`, every index into a received vector - sit in the purely
synchronous statement runs *between* two `.await`s.  This module regenerates, on every run and
from the current source text, one plain `fn` per such run:

    fn seg_<name>(<live-in variables>) -> <ret> { <verbatim source text of the statements> <epilogue> }

The statements are located structurally (token-level statement tree of the function body; the
anchor is "the innermost statement that contains all of these markers", the markers being the
protocol's phase strings such as "output wire shares"), never by line number, so an edit inside
the segment is picked up and an edit that restructures the function makes the segment
unavailable (reported as inconclusive, never as a pass).  What a segment receives at its
entry - the values that arrived in the preceding `.await` - is an arbitrary well-typed value in
the harness: environment = nondeterministic stub.

Optional textual substitutions (listed per segment and copied into the evidence) replace calls
into cryptographic primitives by harness-defined environment functions.
"""
import hashlib
import os
import re

# --------------------------------------------------------------------------- tokenizer

OPEN = {"(": ")", "[": "]", "{": "}"}
CLOSE = {v: k for k, v in OPEN.items()}


def tokenize(src):
    """-> list of (kind, text, start, end); comments/whitespace dropped."""
    toks = []
    i, n = 0, len(src)
    while i < n:
        c = src[i]
        if c.isspace():
            i += 1
            continue
        if src.startswith("//", i):
            j = src.find("\n", i)
            i = n if j < 0 else j
            continue
        if src.startswith("/*", i):
            depth, j = 1, i + 2
            while j < n and depth:
                if src.startswith("/*", j):
                    depth += 1
                    j += 2
                elif src.startswith("*/", j):
                    depth -= 1
                    j += 2
                else:
                    j += 1
            i = j
            continue
        # raw strings / byte strings
        m = re.match(r'b?r(#*)"', src[i:])
        if m:
            hashes = m.group(1)
            end = src.find('"' + hashes, i + len(m.group(0)))
            j = n if end < 0 else end + 1 + len(hashes)
            toks.append(("str", src[i:j], i, j))
            i = j
            continue
        if c == '"' or (c == "b" and i + 1 < n and src[i + 1] == '"'):
            j = i + (2 if c == "b" else 1)
            while j < n and src[j] != '"':
                j += 2 if src[j] == "\\" else 1
            j += 1
            toks.append(("str", src[i:j], i, j))
            i = j
            continue
        if c == "'":
            # char literal or lifetime
            m = re.match(r"'(\\.[^']*|[^'\\])'", src[i:])
            if m:
                j = i + len(m.group(0))
                toks.append(("char", src[i:j], i, j))
                i = j
                continue
            m = re.match(r"'[A-Za-z_][A-Za-z0-9_]*", src[i:])
            if m:
                j = i + len(m.group(0))
                toks.append(("life", src[i:j], i, j))
                i = j
                continue
        m = re.match(r"[A-Za-z_][A-Za-z0-9_]*", src[i:])
        if m:
            j = i + len(m.group(0))
            toks.append(("id", src[i:j], i, j))
            i = j
            continue
        m = re.match(r"[0-9][A-Za-z0-9_\.]*", src[i:])
        if m:
            txt = m.group(0)
            # do not swallow `..` ranges or method calls on literals
            k = txt.find("..")
            if k >= 0:
                txt = txt[:k]
            if txt.endswith("."):
                txt = txt[:-1]
            j = i + len(txt)
            toks.append(("num", src[i:j], i, j))
            i = j
            continue
        toks.append(("p", c, i, i + 1))
        i += 1
    return toks


# --------------------------------------------------------------------------- statement tree

BLOCKLIKE = {"if", "for", "while", "loop", "match", "unsafe"}


class Stmt:
    def __init__(self, start, end, t0, t1):
        self.start, self.end = start, end  # char offsets
        self.t0, self.t1 = t0, t1  # token index range [t0, t1)
        self.groups = []  # nested brace groups (each a list of Stmt)
        self.parent_block = None
        self.index = None


def match_close(toks, i):
    """toks[i] is an opening bracket; return index of its closing partner."""
    depth = 0
    j = i
    while j < len(toks):
        k, t = toks[j][0], toks[j][1]
        if k == "p" and t in OPEN:
            depth += 1
        elif k == "p" and t in CLOSE:
            depth -= 1
            if depth == 0:
                return j
        j += 1
    raise ValueError("unbalanced brackets")


def split_block(toks, lo, hi):
    """Statements of the brace group whose tokens are toks[lo:hi] (exclusive of the braces)."""
    stmts = []
    i = lo
    while i < hi:
        t0 = i
        first = toks[i]
        blocklike = (first[0] == "id" and first[1] in BLOCKLIKE) or (first[0] == "p" and first[1] == "{")
        # labelled loops: 'label: for ...
        if first[0] == "life" and i + 2 < hi and toks[i + 1][1] == ":":
            blocklike = toks[i + 2][1] in BLOCKLIKE
        j = i
        end_tok = None
        while j < hi:
            k, t = toks[j][0], toks[j][1]
            if k == "p" and t in OPEN:
                c = match_close(toks, j)
                if t == "{" and blocklike:
                    nxt = toks[c + 1] if c + 1 < hi else None
                    if nxt is not None and nxt[0] == "id" and nxt[1] == "else":
                        j = c + 1
                        continue
                    # a block-like statement ends at its closing brace unless it is continued
                    # as an expression (method call / ? / operator), which rustfmt'd statement
                    # position code does not do except for `.await`/`?` chains on match/if
                    if nxt is not None and nxt[0] == "p" and nxt[1] in (".", "?"):
                        j = c + 1
                        blocklike = False
                        continue
                    end_tok = c
                    break
                j = c + 1
                continue
            if k == "p" and t == ";":
                end_tok = j
                break
            j += 1
        if end_tok is None:
            end_tok = hi - 1  # trailing expression
        s = Stmt(toks[t0][2], toks[end_tok][3], t0, end_tok + 1)
        stmts.append(s)
        i = end_tok + 1
    for idx, s in enumerate(stmts):
        s.index = idx
        s.parent_block = stmts
        # nested brace groups
        j = s.t0
        while j < s.t1:
            if toks[j][0] == "p" and toks[j][1] == "{":
                c = match_close(toks, j)
                s.groups.append(split_block(toks, j + 1, c))
                j = c + 1
            else:
                j += 1
    return stmts


def find_fn(src, toks, name, impl_hint=None):
    """Token range of the body of `fn name` (first match after impl_hint text if given)."""
    start_char = 0
    if impl_hint:
        p = src.find(impl_hint)
        if p < 0:
            raise ValueError(f"impl hint {impl_hint!r} not found")
        start_char = p
    for i, t in enumerate(toks):
        if t[0] == "id" and t[1] == "fn" and i + 1 < len(toks) and toks[i + 1][1] == name and t[2] >= start_char:
            j = i + 2
            while j < len(toks):
                k, tx = toks[j][0], toks[j][1]
                if k == "p" and tx in ("(", "["):
                    j = match_close(toks, j) + 1
                    continue
                if k == "p" and tx == "{":
                    return j, match_close(toks, j)
                if k == "p" and tx == ";":
                    break
                j += 1
    raise ValueError(f"fn {name} not found")


def innermost_with(stmts, src, markers):
    best = None
    for s in stmts:
        txt = src[s.start : s.end]
        if all(m in txt for m in markers):
            inner = None
            for g in s.groups:
                inner = inner or innermost_with(g, src, markers)
            cand = inner or s
            if best is not None and cand is not best:
                # ambiguous at this level: prefer the first, but remember ambiguity
                pass
            best = best or cand
    return best


def cut(src, spec):
    toks = tokenize(src)
    lo, hi = find_fn(src, toks, spec["func"], spec.get("impl_hint"))
    body = split_block(toks, lo + 1, hi)
    if spec.get("expr_in"):
        # an expression inside the innermost statement that contains the markers
        st = innermost_with(body, src, spec["expr_in"])
        if st is None:
            raise ValueError(f"no statement contains all of {spec['expr_in']}")
        m = re.search(spec["expr_regex"], src[st.start : st.end], re.S)
        if not m:
            raise ValueError(f"expression pattern {spec['expr_regex']!r} not found (source was restructured)")
        line0 = src.count("\n", 0, st.start) + 1
        return m.group(1), (line0, src.count("\n", 0, st.end) + 1)
    if spec.get("after") is None:
        block = body
        first = 0
        if spec.get("in_block_of"):
            anchor = innermost_with(body, src, spec["in_block_of"])
            if anchor is None:
                raise ValueError(f"no statement contains {spec['in_block_of']}")
            block = anchor.parent_block
    else:
        a = innermost_with(body, src, spec["after"])
        if a is None:
            raise ValueError(f"no statement contains all of {spec['after']}")
        block = a.parent_block
        first = a.index + 1 - (1 if spec.get("inclusive") else 0)
    last = len(block)
    if spec.get("until"):
        u = None
        for s in block[first:]:
            if all(m in src[s.start : s.end] for m in spec["until"]):
                u = s
                break
        if u is None:
            raise ValueError(f"no later statement in the same block contains {spec['until']}")
        last = u.index + (1 if spec.get("until_inclusive") else 0)
    if first >= last:
        if spec.get("allow_empty"):
            ln = src.count("\n", 0, block[first].start if first < len(block) else block[-1].end) + 1
            return "", (ln, ln)
        raise ValueError("empty segment")
    text = src[block[first].start : block[last - 1].end]
    for s in block[first:last]:
        if ".await" in src[s.start : s.end] and not spec.get("allow_await"):
            raise ValueError("segment contains an .await (source was restructured)")
    line0 = src.count("\n", 0, block[first].start) + 1
    line1 = src.count("\n", 0, block[last - 1].end) + 1
    return text, (line0, line1)


# --------------------------------------------------------------------------- segment table

from .segspecs import SEGMENTS  # noqa: E402

CTX_FIELDS = ["channel", "circ", "inputs", "is_contrib", "p_fpre", "p_eval", "p_own", "p_max", "p_out", "num_and_ops", "num_inputs", "tmp_dir"]


def generate(scratch, hdir, disabled=None):
    """Write verif_harness/segs_<module>.rs for every module; returns per-segment info.
    `disabled`: {segment name: reason} - segments whose cut text did not compile on this tree
    are replaced by a placeholder so that the other segments stay checkable."""
    info = {}
    out = {}
    disabled = disabled or {}
    for spec in SEGMENTS:
        name = spec["name"]
        mod = spec["module"]
        out.setdefault(mod, [])
        if spec.get("kind") == "variant_ctor":
            # constructor of one enum variant whose field list is read from the current source
            # (a harness that spelled the fields out would stop compiling when a field is added
            # or removed, which turns a detectable change into an inconclusive run)
            try:
                src = open(os.path.join(scratch, spec["file"])).read()
                m = re.search(r"enum\s+" + spec["enum"] + r"\b.*?\b" + spec["variant"] + r"\s*\{(.*?)\}", src, re.S)
                if not m:
                    raise ValueError(f"variant {spec['variant']} of {spec['enum']} not found")
                body = re.sub(r"//[^\n]*", "", m.group(1))
                fields = re.findall(r"(\w+)\s*:\s*([^,]+?)\s*(?:,|$)", body.strip(), re.S)
                inits = []
                for fname, fty in fields:
                    fty = " ".join(fty.split())
                    if fty not in spec["defaults"]:
                        raise ValueError(f"no default value for field {fname}: {fty}")
                    inits.append(f"{fname}: {spec['defaults'][fty]}")
                out[mod].append(f"// ---- constructor {name}: fields of {spec['enum']}::{spec['variant']} read from {spec['file']} on this run\npub(crate) fn {spec['fn']}() -> {spec['ret']} {{\n    {spec['path']} {{ " + ", ".join(inits) + " }\n}\n")
                info[name] = {"ok": True, "file": spec["file"], "func": f"enum {spec['enum']}::{spec['variant']}", "lines": [0, 0], "sha1": hashlib.sha1(body.encode()).hexdigest()[:16], "substitutions": [], "live_in": ""}
            except Exception as e:  # noqa: BLE001
                out[mod].append(f"// ---- constructor {name}: UNAVAILABLE ({e})\npub(crate) fn {spec['fn']}() -> {spec['ret']} {{\n    panic!(\"constructor {name} could not be generated from the current source\")\n}}\n")
                info[name] = {"ok": False, "file": spec["file"], "func": spec["variant"], "why": str(e)}
            continue
        params = spec["params"]
        ctx_pro = ""
        if spec.get("ctx_fields"):
            # the enclosing function destructures its Context; make every field of the real
            # Context available to the cut statements (an edit that starts using another field
            # must not make the segment uncompilable)
            have = set(re.findall(r"(?:mut )?(\w+)\s*:", params))
            rest = [f for f in CTX_FIELDS if f not in have]
            params = "ctx: &Context<'_, NoChan>, " + params
            ctx_pro = "#[allow(unused_variables)]\nlet &Context { " + ", ".join(rest) + ", .. } = ctx;\n"
        sig = f"pub(crate) fn seg_{name}{spec.get('generics','')}({params}) -> {spec['ret']}"
        try:
            if name in disabled:
                raise ValueError("cut text does not compile against the declared live-in variables (source was restructured): " + disabled[name])
            src = open(os.path.join(scratch, spec["file"])).read()
            if spec.get("parts"):
                texts, lo_, hi_ = [], 10**9, 0
                for part in spec["parts"]:
                    sub = dict(spec)
                    sub.pop("parts")
                    for k_ in ("after", "until", "inclusive", "until_inclusive", "in_block_of", "allow_await", "expr_in", "expr_regex"):
                        sub.pop(k_, None)
                    sub.update(part)
                    pre_, post_ = sub.pop("pre", ""), sub.pop("post", "")
                    t_, l_ = cut(src, sub)
                    texts.append(pre_ + t_ + post_)
                    lo_, hi_ = min(lo_, l_[0]), max(hi_, l_[1])
                text, lines = "\n".join(texts), (lo_, hi_)
            else:
                text, lines = cut(src, spec)
            subs = []
            for pat, rep in spec.get("subst", []):
                new, n = re.subn(pat, rep, text)
                if n == 0 and not spec.get("subst_optional"):
                    raise ValueError(f"substitution {pat!r} did not apply (source changed)")
                subs.append({"pattern": pat, "replacement": rep, "count": n})
                text = new
            body = (ctx_pro + spec.get("prologue", "") + "\n" + text + "\n" + spec.get("epilogue", "")).strip("\n")
            if spec.get("forget"):
                # by-value inputs are only borrowed by the cut statements; run them in a closure
                # and forget the inputs afterwards so that their drop glue (not part of the cut,
                # and very expensive for CBMC) is not executed
                fl = "".join(f"    std::mem::forget({v});\n" for v in spec["forget"])
                body = f"    let __seg_r = {{\n        let mut __seg_f = || -> {spec['ret']} {{\n{body}\n        }};\n        __seg_f()\n    }};\n{fl}    __seg_r"
            out[mod].append(f"// ---- segment {name}: {spec['file']} fn {spec['func']} lines {lines[0]}-{lines[1]} (cut on this run)\n#[allow(unused_variables, unused_mut, unreachable_code, clippy::all)]\n{spec.get('attrs', '')}\n{sig} {{\n{body}\n}}\n")
            info[name] = {
                "ok": True,
                "file": spec["file"],
                "func": spec["func"],
                "lines": list(lines),
                "sha1": hashlib.sha1(text.encode()).hexdigest()[:16],
                "substitutions": subs,
                "live_in": params,
            }
        except Exception as e:  # noqa: BLE001
            out[mod].append(f"// ---- segment {name}: UNAVAILABLE ({e})\n#[allow(unused_variables, clippy::all)]\n{spec.get('attrs', '')}\n{sig} {{\n    panic!(\"segment {name} could not be cut from the current source\")\n}}\n")
            info[name] = {"ok": False, "file": spec["file"], "func": spec["func"], "why": str(e)}
    for mod, parts in out.items():
        # line ranges of the generated functions (for attributing compile errors)
        line = 3
        for spec_, part in zip([s for s in SEGMENTS if s["module"] == mod], parts):
            n = part.count("\n") + 1
            info[spec_["name"]]["gen_file"] = f"segs_{mod}.rs"
            info[spec_["name"]]["gen_lines"] = [line, line + n - 1]
            line += n
        with open(os.path.join(hdir, f"segs_{mod}.rs"), "w") as f:
            f.write("// GENERATED on every run by runner/segments.py from the current source text of the scratch copy.\n\n")
            f.write("\n".join(parts))
    return info


if __name__ == "__main__":
    import sys

    src = open(sys.argv[1]).read()
    for spec in SEGMENTS:
        if spec["file"].endswith(os.path.basename(sys.argv[1])):
            try:
                t, l = cut(src, spec)
                print(f"=== {spec['name']} lines {l}\n{t}\n")
            except Exception as e:  # noqa: BLE001
                print(f"=== {spec['name']}: FAILED {e}")
