"""Cut synchronous segments out of the real async functions (filled in below)."""


def generate(scratch, hdir):
    return {}
