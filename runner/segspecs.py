"""Segment table: which statement runs are cut out of which function (see segments.py).

Selectors are marker strings; `after`: the segment starts behind the innermost statement that
contains all markers; `until`: it ends in front of the first later statement of the same block
that contains all markers (default: end of the block).  `parts`: several cuts concatenated."""

P = "src/mpc/protocol.rs"
F = "src/mpc/faand.rs"

SEGMENTS = [
    # ------------------------------------------------------------------ protocol.rs: output()
    dict(
        name="output_tail",
        module="protocol",
        file=P,
        func="output",
        after=['"lambda"', "is_contrib"],
        params="circ: &Circuit, p_own: usize, p_max: usize, p_out: &[usize], delta: Delta, shares: Vec<Share>, output_wire_shares: Vec<Vec<Option<(bool, Mac)>>>, input_regs: Vec<Option<bool>>, unqiue_output_regs: BTreeSet<Reg>",
        ret="Result<Vec<bool>, Error>",
    ),
    dict(
        name="output_label_check",
        module="protocol",
        file=P,
        func="output",
        after=['"lambda"', "recv_vec_from", "let wires_and_labels"],
        params="circ: &Circuit, delta: Delta, labels: Vec<Label>, wires_and_labels: Vec<Option<(bool, Label)>>, mut input_regs: Vec<Option<bool>>, unqiue_output_regs: BTreeSet<Reg>",
        ret="Result<Vec<Option<bool>>, Error>",
        epilogue="Ok(input_regs)",
    ),
    # ------------------------------------------------------------------ protocol.rs: input_processing()
    dict(
        name="ip_pre",
        module="protocol",
        file=P,
        func="input_processing",
        after=["random_input_shares", ".take(num_inputs)"],
        until=['"wire shares"', "scatter"],
        params="circ: &Circuit, p_own: usize, p_max: usize, random_input_shares: Vec<Share>",
        ret="Result<Vec<Vec<Option<(bool, Mac)>>>, Error>",
        epilogue="Ok(wire_shares_for_others)",
    ),
    dict(
        name="ip_mid",
        module="protocol",
        file=P,
        func="input_processing",
        after=['"wire shares"', "scatter"],
        until=['"masked inputs"', "broadcast"],
        params="circ: &Circuit, inputs: &[bool], p_own: usize, p_max: usize, delta: Delta, random_input_shares: Vec<Share>, wire_shares_from_others: Vec<Vec<Option<(bool, Mac)>>>",
        ret="Result<Vec<Option<bool>>, Error>",
        epilogue="Ok(masked_inputs)",
    ),
    dict(
        name="ip_post",
        module="protocol",
        file=P,
        func="input_processing",
        after=['"masked inputs"', "broadcast"],
        until=["other_input_labels", "Mutex::new"],
        params="p_own: usize, p_max: usize, mut masked_inputs: Vec<Option<bool>>, masked_inputs_from_other_party: Vec<Vec<Option<bool>>>",
        ret="Result<Vec<Option<bool>>, Error>",
        epilogue="Ok(masked_inputs)",
    ),
    # ------------------------------------------------------------------ faand.rs
    dict(
        name="check_dvalue_tail",
        module="faand",
        file=F,
        func="check_dvalue",
        after=['"dvalue"', "scatter", "let dvalues_macs_all"],
        params="delta: Delta, i: usize, n: usize, buckets: &[Bucket<'_>], mut d_values: Vec<Vec<bool>>, len: usize, dvalues_macs_all: Vec<Vec<(Vec<bool>, Vec<Mac>)>>",
        ret="Result<Vec<Vec<bool>>, Error>",
    ),
    dict(
        name="fashare_3c",
        module="faand",
        file=F,
        func="fashare",
        after=["dm_k[i] = dmvec"],
        until=['"fashare di_bi"'],
        params="i: usize, n: usize, dm_k: Vec<Vec<Vec<u8>>>, d0: Vec<u128>, d1: Vec<u128>",
        ret="Result<Vec<u128>, Error>",
        prologue="const RHO: usize = 2; // cut: statistical parameter lowered inside the segment (loop body identical per r)",
        epilogue="Ok(di_bi)",
    ),
    dict(
        name="fashare_3d",
        module="faand",
        file=F,
        func="fashare",
        after=['"fashare di_bi"'],
        until=["xishares.truncate(l)"],
        params="i: usize, n: usize, dm_k: Vec<Vec<Vec<u8>>>, di_bi_k: Vec<Vec<u128>>, c0_c1_cm_k: Vec<Vec<(Commitment, Commitment, Commitment)>>",
        ret="Result<(), Error>",
        subst=[(r"\bopen_commitment\(", "env_open_commitment(")],
        prologue="const RHO: usize = 2; // cut: statistical parameter lowered inside the segment (loop body identical per r)",
        epilogue="Ok(())",
    ),
    dict(
        name="beaver_tail",
        module="faand",
        file=F,
        func="beaver_aand",
        after=['"faand"', "scatter", "d_e_dmac_emac_k"],
        params="delta: Delta, i: usize, n: usize, len: usize, abc_triples: Vec<(Share, Share, Share)>, alpha_beta_shares: &[(Share, Share)], de_shares: Vec<(Share, Share)>, mut d_e_dmac_emac: Vec<(bool, bool, Mac, Mac)>, d_e_dmac_emac_k: Vec<Vec<(bool, bool, Mac, Mac)>>",
        ret="Result<Vec<Share>, Error>",
    ),
]
