"""./check <property> [--tier quick|thorough] [--replay <file>] [--only <harness>] [--keep]

Decides one property by solver-based checking of /repo's current working tree:
  E1  Kani/CBMC harnesses (harness/*.rs) over the real functions and over synchronous
      segments cut out of the real source text on every run (runner/segments.py)
  E2  MIR -> SMT-LIB2 queries (e2/), z3 + cvc5
Exit 0: every obligation discharged (known findings are printed as KNOWN-FINDING lines).
Exit 1: `VIOLATION property=<id> replay=<path>` for a natively reproduced counterexample.
Exit 2: the check itself is inconclusive/broken (build error, timeout, non-reproducing cex).
"""
import argparse
import fcntl
import json
import os
import re
import shutil
import sys
import time
from concurrent.futures import ThreadPoolExecutor

VERIF = os.path.dirname(os.path.dirname(os.path.abspath(__file__)))
sys.path.insert(0, VERIF)

from runner import kani, prep, table  # noqa: E402

CACHE = kani.CACHE


class TdPool:
    """Pool of Kani target dirs under /verif/.cache, each guarded by a flock so that
    concurrently running checks never share one."""

    def __init__(self):
        os.makedirs(CACHE, exist_ok=True)

    def acquire(self):
        k = 0
        while True:
            for k in range(0, 64):
                lp = os.path.join(CACHE, f"td-{k}.lock")
                f = open(lp, "w")
                try:
                    fcntl.flock(f, fcntl.LOCK_EX | fcntl.LOCK_NB)
                except BlockingIOError:
                    f.close()
                    continue
                td = os.path.join(CACHE, f"td-{k}")
                if not os.path.isdir(td):
                    seed = os.path.join(CACHE, "td-seed")
                    if os.path.isdir(seed):
                        shutil.copytree(seed, td, symlinks=True)
                return td, f
            time.sleep(1)

    def release(self, handle):
        fcntl.flock(handle, fcntl.LOCK_UN)
        handle.close()


def load_known():
    p = os.path.join(VERIF, "KNOWN_FINDINGS.json")
    if not os.path.exists(p):
        return []
    return json.load(open(p))["findings"]


def match_known(known, pid, harness, fail):
    for k in known:
        if k.get("status") != "known" or k["property"] != pid:
            continue
        if k.get("harness") and k["harness"] != harness:
            continue
        if k.get("desc") and k["desc"] not in fail["desc"]:
            continue
        if k.get("fn") and k["fn"] not in fail.get("fn", ""):
            continue
        return k
    return None


def main():
    ap = argparse.ArgumentParser()
    ap.add_argument("property")
    ap.add_argument("--tier", default=os.environ.get("VERIF_TIER", "quick"))
    ap.add_argument("--replay")
    ap.add_argument("--only", action="append")
    ap.add_argument("--keep", action="store_true")
    ap.add_argument("--jobs", type=int, default=int(os.environ.get("VERIF_JOBS", "6")))
    ap.add_argument("--no-evidence", action="store_true")
    a = ap.parse_args()
    pid = a.property
    tier = "thorough" if a.tier == "thorough" else "quick"
    seed = int(os.environ.get("VERIF_SEED", "0") or 0)
    if pid not in table.PROPS:
        print(f"property {pid} is not claimed (see MANIFEST.not_applicable)")
        return 2
    spec = table.PROPS[pid]
    t0 = time.time()
    scratch = f"/var/tmp/polytune-verif.{os.getpid()}"
    logdir = os.path.join(CACHE, "logs", pid)
    shutil.rmtree(logdir, ignore_errors=True)
    rc = 2
    try:
        rc = run_property(pid, spec, tier, seed, scratch, logdir, a, t0)
    finally:
        if not a.keep:
            shutil.rmtree(scratch, ignore_errors=True)
    return rc


def run_property(pid, spec, tier, seed, scratch, logdir, a, t0):
    known = load_known()
    try:
        info = prep.make_scratch(scratch)
        prep.lockfile(scratch)
    except Exception as e:  # noqa: BLE001
        print(f"INCONCLUSIVE property={pid}: cannot prepare scratch copy: {e}")
        return 2
    seg_info = info.get("segments", {})
    seg_info = contain_segment_compile_errors(scratch, info, seg_info, logdir)
    harnesses = [h for h in spec["harnesses"] if tier == "thorough" or h.get("tier", "quick") == "quick"]
    if a.replay:
        return do_replay_file(pid, a.replay, scratch)
    if a.only:
        harnesses = [h for h in harnesses if h["name"] in a.only]
    # segment-based harnesses whose segment could not be cut from the current source are
    # inconclusive (the source was restructured), never a pass
    pool = TdPool()
    results = []

    import threading

    budget = {"free": float(os.environ.get("VERIF_MEM_GB", "48"))}
    cond = threading.Condition()

    def work(h):
        # memory-aware admission: the sum of the harnesses' expected peak RSS stays under the
        # budget (62 GB machine, no swap); `est_gb` comes from measured runs (default 6)
        need = min(float(h.get("est_gb", 6)), 44.0)
        with cond:
            while budget["free"] < need:
                cond.wait()
            budget["free"] -= need
        try:
            return work_inner(h)
        finally:
            with cond:
                budget["free"] += need
                cond.notify_all()

    def work_inner(h):
        if h.get("needs_segment"):
            missing = [s for s in h["needs_segment"] if not seg_info.get(s, {}).get("ok")]
            if missing:
                return dict(harness=h["name"], outcome="inconclusive", why=f"segment(s) {missing} could not be cut from the current source: " + "; ".join(str(seg_info.get(s, {}).get("why")) for s in missing), failed=[], covers=[], checks=0, wall_s=0)
        td, lk = pool.acquire()
        try:
            to = h.get("timeout", 900) * (3 if tier == "thorough" else 1)
            return kani.run(scratch, h["name"], td, to, h.get("mem_gb", 20), h.get("extra", ()), logdir, full=h.get("full"), package=h.get("package"))
        finally:
            pool.release(lk)

    with ThreadPoolExecutor(max_workers=max(1, a.jobs)) as ex:
        results = list(ex.map(work, harnesses))

    extra_results = []
    for fn in spec.get("extra", []):
        if isinstance(fn, str):
            import importlib

            modn, fnn = fn.split(":")
            fn = getattr(importlib.import_module(modn), fnn)
        try:
            extra_results += fn(scratch, tier, seed, logdir)
        except Exception as e:  # noqa: BLE001
            extra_results.append(dict(harness=getattr(fn, "__name__", "extra"), outcome="inconclusive", why=f"exception: {e!r}", failed=[], covers=[], checks=0, wall_s=0))

    violations = []
    known_hits = []
    inconclusive = []
    hmeta = {h["name"]: h for h in spec["harnesses"]}
    import re as _re

    for r in results + extra_results:
        h = hmeta.get(r["harness"], {})
        r["full"] = h.get("full")
        r["package"] = h.get("package")
        if r["outcome"] == "inconclusive":
            inconclusive.append((r["harness"], r.get("why", "")))
            continue
        # vacuity: every cover must be SATISFIED
        bad_cov = [c for c in r.get("covers", []) if c["status"] != "SATISFIED" and c["desc"] not in h.get("covers_may_be_unsat", ())]
        if bad_cov:
            inconclusive.append((r["harness"], "vacuity witness not satisfied: " + ", ".join(c["desc"] for c in bad_cov)))
        r["own_failed"] = []
        if r["outcome"] == "fail":
            unlisted = []
            for f in r["failed"]:
                m = _re.match(r'"?(C\d{2,3}):', f["desc"])
                if m:
                    owner = m.group(1)
                elif "unwinding assertion" in f["desc"]:
                    owner = pid  # a too-small bound breaks every claim of this harness
                else:
                    owner = h.get("panic_prop", pid)
                if owner != pid:
                    continue  # reported by the check of the property that owns the assertion
                r["own_failed"].append(f)
                if "unwinding assertion" in f["desc"]:
                    inconclusive.append((r["harness"], "unwinding assertion failed (bound too small): " + f.get("fn", "")[:120]))
                    continue
                k = match_known(known, pid, r["harness"], f)
                if k:
                    known_hits.append((k, r["harness"], f))
                else:
                    unlisted.append(f)
            if unlisted:
                violations.append((r, unlisted))

    rc = 0
    seen = set()
    for k, hn, f in known_hits:
        if k["id"] in seen:
            continue
        seen.add(k["id"])
        print(f"KNOWN-FINDING: property={pid} {k['what']} [{k['id']}]")
    viol_lines = []
    for r, unlisted in violations:
        if r.get("replay_kind") == "smt":
            # E2: replay the model by a generated #[test] against the real function
            for f in unlisted:
                ok, path = replay_smt_model(pid, scratch, r, f)
                if ok is True:
                    viol_lines.append((r["harness"], f, path))
                elif ok is False:
                    inconclusive.append((r["harness"], "SMT model did not reproduce natively (encoding suspect): " + f["desc"]))
                else:
                    inconclusive.append((r["harness"], "SMT model could not be replayed: " + f["desc"]))
            continue
        if len(viol_lines) >= 1:
            # one natively reproduced violation already fails the check; further failing
            # harnesses are listed without replay (playback costs 2-4x the verification)
            for f in unlisted[:1]:
                print(f"  also failing (not replayed): harness={r['harness']} {f['desc']} @ {f.get('fn','')[:80]}")
            continue
        reps = replay_failures(pid, scratch, info, r, unlisted, logdir)
        for f, path, status in reps:
            if status is True:
                viol_lines.append((r["harness"], f, path))
            elif status is False:
                inconclusive.append((r["harness"], f"counterexample for '{f['desc']}' did not reproduce natively (harness/stub suspect)"))
            else:
                inconclusive.append((r["harness"], f"counterexample for '{f['desc']}' could not be replayed"))
    for hn, f, path in viol_lines:
        print(f"VIOLATION property={pid} replay={path}")
        print(f"  harness={hn} failed: {f['desc']} @ {f.get('fn','')}")
        rc = 1
    if rc == 0 and inconclusive:
        rc = 2
    for hn, why in inconclusive:
        print(f"INCONCLUSIVE property={pid} harness={hn}: {why}")

    wall = time.time() - t0
    if not a.no_evidence and not a.only:
        write_evidence(pid, spec, tier, seed, results + extra_results, known_hits, viol_lines, inconclusive, wall, seg_info)
    n_pass = sum(1 for r in results + extra_results if r["outcome"] == "pass" or (r["outcome"] == "fail" and not r.get("own_failed")))
    print(f"[{pid}/{tier}] harnesses/queries: {len(results)+len(extra_results)} pass={n_pass} violations={len(viol_lines)} known={len(seen)} inconclusive={len(inconclusive)} wall={wall:.0f}s")
    return rc


def contain_segment_compile_errors(scratch, info, seg_info, logdir):
    """Build once; if the crate does not compile because the text of a cut segment no longer
    fits its declared live-in variables (the source was restructured), replace exactly those
    segments by placeholders (their harnesses become inconclusive) and keep the rest."""
    from runner import segments

    pool = TdPool()
    disabled = {}
    for _ in range(4):
        td, lk = pool.acquire()
        try:
            r = kani.run(scratch, "build_probe", td, 1200, 20, (), logdir, full="mpc::protocol::__verif::build_probe")
        finally:
            pool.release(lk)
        if r["outcome"] == "pass" or r.get("why") != "compile error":
            break
        log = open(r["log"]).read() if r.get("log") else ""
        hit = {}
        for m in re.finditer(r"^(error[^\n]*)\n\s*--> ([^\n:]*segs_(\w+)\.rs):(\d+):\d+", log, re.M):
            msg, _, mod, line = m.group(1), m.group(2), m.group(3), int(m.group(4))
            for name, si in seg_info.items():
                gl = si.get("gen_lines")
                if si.get("gen_file") == f"segs_{mod}.rs" and gl and gl[0] <= line <= gl[1] and name not in disabled:
                    hit[name] = msg[:160]
        if not hit:
            break
        disabled.update(hit)
        seg_info = segments.generate(scratch, info["harness_dir"], disabled)
    return seg_info


def replay_failures(pid, scratch, info, r, unlisted, logdir):
    """Concrete playback of the failing harness, native run of the generated tests."""
    out = []
    pool = TdPool()
    td, lk = pool.acquire()
    try:
        rcopy = prep.make_replay_copy(scratch)
        hfile = find_harness_file(os.path.join(rcopy, "verif_harness"), r["harness"])
        # one violation is enough to fail the check: replay at most two distinct failures
        for f in unlisted[:2]:
            pr = kani.run(scratch, r["harness"], td, 5400, 44, (), logdir, playback=True, full=r.get("full"), only_property=f.get("id"), package=r.get("package"))
            tests = pr.get("playback_tests", [])
            cands = [t for t in tests if f["desc"] in t["check"] or t["check"] in f["desc"]]
            no_values = pr.get("log") and "could not produce a concrete playback" in open(pr["log"]).read()
            if not cands and not no_values and pr.get("verification") is not None and pr.get("why") is None:
                # fall back to an unrestricted playback run (only if the restricted one ended
                # normally: after a timeout / out-of-memory the bigger run cannot do better)
                pr = kani.run(scratch, r["harness"], td, 5400, 44, (), logdir, playback=True, full=r.get("full"), package=r.get("package"))
                tests = pr.get("playback_tests", [])
                cands = [t for t in tests if f["desc"] in t["check"] or t["check"] in f["desc"]]
            if not cands and hfile and "could not produce a concrete playback" in open(pr["log"]).read():
                # a harness whose failing path does not depend on any nondeterministic value:
                # Kani emits no playback test; the harness itself (no concrete values) is the replay
                short = r["harness"]
                cands = [{
                    "name": f"kani_concrete_playback_{short}_novalues",
                    "check": f["desc"],
                    "code": f"/// Replay of `{short}` (deterministic failing path, no nondeterministic values)\n#[test]\nfn kani_concrete_playback_{short}_novalues() {{\n    let concrete_vals: Vec<Vec<u8>> = vec![];\n    kani::concrete_playback_run(concrete_vals, {short});\n}}",
                    "must_mention": f["desc"].strip('"'),
                }]
            if not cands or not hfile:
                out.append((f, None, None))
                continue
            t = cands[0]
            ok, log = kani.native_replay(rcopy, hfile, t, os.path.join(CACHE, "td-native"), package=r.get("package"))
            if ok and t.get("must_mention") and t["must_mention"] not in log:
                ok = None  # failed for another reason (e.g. ran out of concrete values)
            rid = kani.replay_id(r["harness"] + f["desc"] + t["code"])
            rp = os.path.join(VERIF, "replays", f"{pid}-{r['harness']}-{rid}.rs")
            os.makedirs(os.path.dirname(rp), exist_ok=True)
            with open(rp, "w") as fh:
                fh.write(f"// property={pid} harness={r['harness']}\n// failed check: {f['desc']} @ {f.get('fn','')}\n")
                fh.write(f"// native replay (cargo kani playback, dev profile) reproduced: {ok}\n")
                fh.write("// replay: ./check " + pid + " --replay " + rp + "\n")
                fh.write(t["code"] + "\n")
                fh.write("/* native replay log (tail):\n" + log[-3000:].replace("*/", "* /") + "\n*/\n")
            out.append((f, rp, ok))
            if ok:
                break
    finally:
        pool.release(lk)
        shutil.rmtree(scratch.rstrip("/") + ".replay", ignore_errors=True)
    return out


def replay_smt_model(pid, scratch, r, f):
    import re
    import subprocess

    rt = f.get("replay_test")
    if not rt:
        return None, None
    rcopy = prep.make_replay_copy(scratch)
    try:
        with open(os.path.join(rcopy, rt["file"]), "a") as fh:
            fh.write("\n" + rt["code"])
        env = dict(os.environ, CARGO_NET_OFFLINE="true", CARGO_TARGET_DIR=os.path.join(CACHE, "td-native"))
        p = subprocess.run(f"cargo test --offline --lib {rt['name']}", shell=True, cwd=rcopy, env=env, text=True, capture_output=True, timeout=1800)
        out = p.stdout + p.stderr
        m = re.search(r"^test \S*" + re.escape(rt["name"]) + r" \.\.\. (\w+)", out, re.M)
        ok = None if not m else (m.group(1) == "FAILED")
        rid = kani.replay_id(r["harness"] + f["desc"] + rt["code"])
        rp = os.path.join(VERIF, "replays", f"{pid}-{r['harness']}-{rid}.rs")
        os.makedirs(os.path.dirname(rp), exist_ok=True)
        with open(rp, "w") as fh:
            fh.write(f"// property={pid} harness={r['harness']} kind=smt-model file={rt['file']} test={rt['name']}\n// failed query: {f['desc']}\n// model: {f.get('model')}\n// native replay reproduced: {ok}\n{rt['code']}\n/* log tail:\n{out[-2000:].replace('*/','* /')}\n*/\n")
        return ok, rp
    finally:
        shutil.rmtree(rcopy, ignore_errors=True)


def find_harness_file(hdir, harness):
    fn = harness.split("::")[-1]
    for f in os.listdir(hdir):
        p = os.path.join(hdir, f)
        try:
            txt = open(p).read()
            if f"fn {fn}(" in txt or re.search(r"\b" + re.escape(fn) + r"\b", txt):
                return p
        except Exception:  # noqa: BLE001
            pass
    return None


def do_replay_file(pid, path, scratch):
    import re

    txt = open(path).read()
    m = re.search(r"// property=(\S+) harness=(\S+)", txt)
    code = re.search(r"(///.*?^\})", txt, re.S | re.M)
    name = re.search(r"fn (kani_concrete_playback_\w+)\(", txt)
    if not (m and code and name):
        print("not a replay file written by this framework")
        return 2
    rcopy = prep.make_replay_copy(scratch)
    hfile = find_harness_file(os.path.join(rcopy, "verif_harness"), m.group(2))
    try:
        ok, log = kani.native_replay(rcopy, hfile, {"code": code.group(1), "name": name.group(1)}, os.path.join(CACHE, "td-native"))
    finally:
        shutil.rmtree(rcopy, ignore_errors=True)
    print(log[-3000:])
    if ok:
        print(f"VIOLATION property={pid} replay={path}")
        return 1
    print("replay did not fail on the current tree")
    return 0 if ok is False else 2


def write_evidence(pid, spec, tier, seed, results, known_hits, viol_lines, inconclusive, wall, seg_info):
    samples = []
    obligations = 0
    discharged = 0
    nontrivial = 0
    solver_s = 0.0
    for r in results:
        n = r.get("checks", 0)
        nf = len(r.get("own_failed", r.get("failed", [])))
        obligations += n
        if r["outcome"] in ("pass", "fail"):
            discharged += n - nf
        cov_ok = [c["desc"] for c in r.get("covers", []) if c["status"] == "SATISFIED"]
        own_failed = r.get("own_failed", r.get("failed", []))
        known_ids = {id(f) for _, _, f in known_hits}
        only_known = r["outcome"] == "fail" and all(id(f) in known_ids for f in own_failed)
        if (r["outcome"] == "pass" or only_known) and (cov_ok or r.get("nonvacuous")):
            nontrivial += 1
        solver_s += r.get("verif_time_s") or 0.0
        meta = next((h for h in spec["harnesses"] if h["name"] == r["harness"]), {})
        samples.append(
            {
                "harness_or_query": r["harness"],
                "engine": r.get("engine", "kani-0.68/cbmc-6.11/cadical"),
                "obligation": meta.get("what", r.get("what", "")),
                "bounds": meta.get("bounds", r.get("bounds", "")),
                "functions": meta.get("functions", r.get("functions", [])),
                "outcome": r["outcome"],
                "cbmc_checks": n,
                "failed_checks_of_this_property": [f["desc"] + " @ " + f.get("fn", "")[:80] for f in r.get("own_failed", [])][:10],
                "failed_checks_owned_by_other_properties": sorted({f["desc"] for f in r.get("failed", []) if f not in r.get("own_failed", [])})[:10],
                "vacuity_witnesses_satisfied": cov_ok,
                "solver_time_s": r.get("verif_time_s"),
                "wall_s": r.get("wall_s"),
                **({"why": r.get("why")} if r.get("why") else {}),
                **({"cross_check": r.get("cross_check")} if r.get("cross_check") else {}),
            }
        )
    ev = {
        "property_id": pid,
        "tier": tier,
        "seed": seed,
        "level": spec.get("level", "model_checking"),
        "coverage": {
            "evaluations": len(results),
            "distinct_nontrivial": nontrivial,
            "rule": "one evaluation = one solver-discharged harness or SMT query over the real code (regenerated from /repo's working tree on this run); it counts as non-trivial only if it passed AND its vacuity witness (kani::cover after the last assertion / sat check of the assumptions) was satisfied",
            "samples": samples,
            "obligations": obligations,
            "discharged": discharged,
            "exhaustive": False,
            "explanation": spec.get("explanation", ""),
            "functions_encoded": sorted({f for s in samples for f in s["functions"]}),
            "bounds_and_exclusions": spec.get("outside", ""),
            "solver_time_s": round(solver_s, 1),
            "segments_cut_from_source": {k: {kk: vv for kk, vv in v.items() if kk in ("ok", "file", "lines", "sha1", "why")} for k, v in seg_info.items() if k in spec.get("segments", [])},
            "known_findings_hit": sorted({k["id"] for k, _, _ in known_hits}),
            "inconclusive": [f"{h}: {w}" for h, w in inconclusive],
        },
        "assumptions": spec.get("assumptions", []),
        "wall_s": round(wall, 1),
        "violations": len(viol_lines),
    }
    os.makedirs(os.path.join(VERIF, "evidence"), exist_ok=True)
    with open(os.path.join(VERIF, "evidence", f"{pid}.json"), "w") as f:
        json.dump(ev, f, indent=1)


if __name__ == "__main__":
    sys.exit(main())
