"""Regenerate /verif/MANIFEST.json from runner/table.py (single source of truth)."""
import json
import os
import sys

VERIF = os.path.dirname(os.path.dirname(os.path.abspath(__file__)))
sys.path.insert(0, VERIF)
from runner import table  # noqa: E402


def main():
    checks = []
    for pid in sorted(table.PROPS):
        s = table.PROPS[pid]
        checks.append(
            {
                "property_id": pid,
                "quick_cmd": f"./check {pid} --tier quick",
                "thorough_cmd": f"./check {pid} --tier thorough",
                "evidence_file": f"/verif/evidence/{pid}.json",
                "replay_cmd_template": f"./check {pid} --replay {{path}}",
                "engine": s.get("engine", "kani-cbmc"),
                "level_claimed": {
                    "category": s.get("level", "model_checking"),
                    "text": s["level_text"],
                    "design_ref": s.get("design_ref", f"DESIGN.md §3/{pid}"),
                },
                "level_note": s["level_note"],
                "technique": s.get("technique", "bounded model checking of the real code (Kani 0.68 / CBMC 6.11, CaDiCaL) with unwinding assertions"),
            }
        )
    na = [{"property_id": p, "reason": r} for p, r in sorted(table.NOT_APPLICABLE.items()) if p not in table.PROPS]
    m = {
        "version": 1,
        "setup_cmd": "./setup.sh",
        "hooks": {
            "guard": "cfg(kani)",
            "enable": "no source hooks in /repo: every check rsyncs /repo's working tree to a scratch copy and appends `#[cfg(kani)] #[path=...] mod __verif;` (harness modules and segment wrappers cut from the current source) to the anchored files of that copy; cfg(kani) is only set by `cargo kani`",
            "baseline_off_cmd": "cd /repo && cargo test --workspace --no-fail-fast --offline",
            "source_commits": [],
            "add_only": True,
        },
        "engines": [
            {"name": "kani-cbmc", "path": "/verif/runner/kani.py", "serves_properties": sorted(table.PROPS), "kind_free_text": "Kani 0.68 proof harnesses (harness/*.rs) compiled together with the real crate; CBMC 6.11 + CaDiCaL decides every assertion, panic, overflow and unwinding assertion within the stated bounds"},
            {"name": "mir-smt", "path": "/verif/e2", "serves_properties": sorted(p for p in table.PROPS if table.PROPS[p].get("uses_e2")), "kind_free_text": "translator from the nightly's -Zunpretty=mir dump of loop-free integer functions to SMT-LIB2 bit-vectors; z3 decides, cvc5 cross-checks"},
        ],
        "checks": checks,
        "not_applicable": na,
        "notes": "Technique family: solver-based checking of the real code. Exit codes: 0 held within bounds (KNOWN-FINDING lines allowed), 1 VIOLATION with natively reproduced replay, 2 inconclusive (never reported as success). See DESIGN.md.",
    }
    json.dump(m, open(os.path.join(VERIF, "MANIFEST.json"), "w"), indent=1)
    print(f"MANIFEST.json: {len(checks)} checks, {len(na)} not applicable")


if __name__ == "__main__":
    main()
