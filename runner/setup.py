"""Offline setup after a fresh restore: warm one Kani target dir (dependencies compiled once);
the other target dirs of the pool are copies of it.  Nothing is fetched."""
import os
import shutil
import subprocess
import sys

VERIF = os.path.dirname(os.path.dirname(os.path.abspath(__file__)))
sys.path.insert(0, VERIF)
from runner import kani, prep  # noqa: E402


def main():
    cache = kani.CACHE
    os.makedirs(cache, exist_ok=True)
    os.makedirs(os.path.join(VERIF, "evidence"), exist_ok=True)
    seed = os.path.join(cache, "td-seed")
    scratch = f"/var/tmp/polytune-verif.setup.{os.getpid()}"
    try:
        prep.make_scratch(scratch)
        prep.lockfile(scratch)
        if not os.path.isdir(seed):
            tmp = seed + ".tmp"
            shutil.rmtree(tmp, ignore_errors=True)
            r = kani.run(scratch, "build_probe", tmp, 1800, 20, full="mpc::protocol::__verif::build_probe")
            if r["outcome"] != "pass":
                print("setup: Kani build probe did not pass:\n" + r["raw_tail"])
                return 1
            # second package of the workspace (server core: tokio, garble_lang, url, ...)
            r = kani.run(scratch, "c14_msg_before_schedule_is_an_error", tmp, 1800, 20, full="state::__verif::c14_msg_before_schedule_is_an_error", package="polytune-server-core")
            if r["outcome"] != "pass":
                print("setup: Kani build probe of polytune-server-core did not pass (the C14-C17 checks will build it themselves):\n" + r["raw_tail"][-1500:])
            os.rename(tmp, seed)
        print("setup ok: " + seed)
        return 0
    finally:
        shutil.rmtree(scratch, ignore_errors=True)


if __name__ == "__main__":
    sys.exit(main())
