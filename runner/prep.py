"""Build the scratch copy of /repo's *current working tree* that every check works on.

Nothing is kept inside /repo.  The copy gets
  * a trimmed Cargo.toml (root package only, no-op `tracing` stand-in patched in),
  * the harness modules appended (never edited) to the anchored source files as
    `#[cfg(kani)] #[path = ".../verif_harness/<file>.rs"] mod __verif;`
  * the generated segment wrappers (runner/segments.py) appended the same way.
"""
import os
import re
import shutil
import subprocess
import sys

VERIF = os.path.dirname(os.path.dirname(os.path.abspath(__file__)))
REPO = os.environ.get("VERIF_REPO", "/repo")

# harness file (under /verif/harness) -> source file of the scratch copy it is appended to
HARNESS_MODULES = {
    "protocol.rs": "src/mpc/protocol.rs",
    "faand.rs": "src/mpc/faand.rs",
    "data_types.rs": "src/mpc/data_types.rs",
    "garble.rs": "src/mpc/garble.rs",
    "gf128.rs": "src/block/gf128.rs",
    "transpose.rs": "src/transpose.rs",
    "alsz.rs": "src/ot_core/alsz.rs",
    "ot.rs": "src/ot.rs",
    "serde.rs": "src/utils/serde.rs",
    "channel.rs": "src/channel.rs",
    "aes_rng.rs": "src/crypto/aes_rng.rs",
    "aes_hash.rs": "src/crypto/aes_hash.rs",
    "avx2.rs": "src/transpose/avx2.rs",
    "fpre.rs": "src/mpc/fpre.rs",
    "kos.rs": "src/ot_core/kos.rs",
    "file_or_mem_buf.rs": "src/utils/file_or_mem_buf.rs",
    "state.rs": "crates/polytune-server-core/src/state.rs",
}


def sh(cmd, **kw):
    return subprocess.run(cmd, shell=True, text=True, capture_output=True, **kw)


def make_scratch(scratch, with_segments=True, log=None):
    """rsync /repo's working tree to `scratch`, normalise Cargo.toml, append harness modules."""
    os.makedirs(scratch, exist_ok=True)
    r = sh(
        f"rsync -a --delete --exclude target --exclude .git "
        f"--exclude /crates/polytune-http-server --exclude examples "
        f"--exclude docs --exclude benches --exclude '*.png' --exclude '*.jpg' {REPO}/ {scratch}/"
    )
    if r.returncode != 0:
        raise RuntimeError("rsync failed: " + r.stderr)
    ct = open(os.path.join(scratch, "Cargo.toml")).read()
    ct = re.sub(r"\[workspace\]\nmembers = \[.*?\]\n", '[workspace]\nmembers = ["crates/polytune-server-core"]\n', ct, flags=re.S)
    ct = re.sub(r"\[\[bench\]\].*?required-features = \[[^\]]*\]\n", "", ct, flags=re.S)
    ct += (
        "\n[patch.crates-io]\n"
        f'tracing = {{ path = "{VERIF}/stubs/tracing" }}\n'
        f'tracing-attributes = {{ path = "{VERIF}/stubs/tracing-attributes" }}\n'
    )
    open(os.path.join(scratch, "Cargo.toml"), "w").write(ct)
    hdir = os.path.join(scratch, "verif_harness")
    if os.path.isdir(hdir):
        shutil.rmtree(hdir)
    shutil.copytree(os.path.join(VERIF, "harness"), hdir)
    # the harness files include common.rs by absolute path into the scratch copy
    for fn in os.listdir(hdir):
        p = os.path.join(hdir, fn)
        t = open(p).read()
        t = t.replace("/verif/harness/", hdir + "/")
        open(p, "w").write(t)
    seg_info = {}
    if with_segments:
        from . import segments

        seg_info = segments.generate(scratch, hdir)
    for hf, src in HARNESS_MODULES.items():
        hp = os.path.join(hdir, hf)
        sp = os.path.join(scratch, src)
        if not os.path.exists(hp):
            continue
        if not os.path.exists(sp):
            raise RuntimeError(f"anchored source file {src} is missing in the working tree")
        with open(sp, "a") as f:
            f.write(f'\n#[cfg(kani)]\n#[path = "{hp}"]\nmod __verif;\n')
    return {"scratch": scratch, "harness_dir": hdir, "segments": seg_info}


def make_replay_copy(scratch):
    """Native replays (cargo kani playback = cargo test with cfg(kani)) build the dev-dependencies,
    which need the real `tracing`; so replays run in a sibling copy without the [patch] section."""
    rp = scratch.rstrip("/") + ".replay"
    r = sh(f"rsync -a --delete --exclude target {scratch}/ {rp}/")
    if r.returncode != 0:
        raise RuntimeError("rsync failed: " + r.stderr)
    ct = open(os.path.join(rp, "Cargo.toml")).read()
    ct = ct.split("\n[patch.crates-io]")[0] + "\n"
    open(os.path.join(rp, "Cargo.toml"), "w").write(ct)
    shutil.copy(os.path.join(REPO, "Cargo.lock"), os.path.join(rp, "Cargo.lock"))
    # harness module paths point into the first scratch copy: repoint them
    for root, _, files in os.walk(rp):
        for fn in files:
            if fn.endswith(".rs"):
                p = os.path.join(root, fn)
                t = open(p).read()
                if scratch + "/verif_harness" in t:
                    open(p, "w").write(t.replace(scratch + "/verif_harness", rp + "/verif_harness"))
    return rp


def lockfile(scratch):
    """Make sure Cargo.lock matches the trimmed manifest (offline) before parallel runs."""
    env = dict(os.environ, CARGO_NET_OFFLINE="true")
    r = subprocess.run(
        "cargo metadata --offline --format-version 1 >/dev/null",
        shell=True,
        cwd=scratch,
        env=env,
        text=True,
        capture_output=True,
    )
    if r.returncode != 0:
        raise RuntimeError("cargo metadata failed: " + r.stderr[-2000:])


if __name__ == "__main__":
    info = make_scratch(sys.argv[1])
    lockfile(sys.argv[1])
    print(info)
