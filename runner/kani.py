"""Run one Kani harness on the scratch copy and parse CBMC's per-check table."""
import hashlib
import os
import re
import signal
import subprocess
import time

VERIF = os.path.dirname(os.path.dirname(os.path.abspath(__file__)))
CACHE = os.environ.get("VERIF_CACHE", os.path.join(VERIF, ".cache"))

CHECK_RE = re.compile(
    r"^Check (\d+): (.+)\n\s+- Status: (\S+)\n\s+- Description: \"(.*)\"\n\s+- Location: (.*)$",
    re.M,
)


def _env():
    e = dict(os.environ)
    e["CARGO_NET_OFFLINE"] = "true"
    e.pop("RUSTFLAGS", None)
    e.pop("RUSTUP_TOOLCHAIN", None)
    return e


def parse(out):
    """-> dict(status, failed[], covers[], n_checks, n_failed, verif_time, unwind_fail)"""
    res = {
        "checks": 0,
        "failed": [],
        "covers": [],
        "undetermined": 0,
        "verification": None,
        "verif_time_s": None,
        "stubs": re.findall(r"^\s*- Stub: (.*)$", out, re.M),
    }
    for m in CHECK_RE.finditer(out):
        _, cid, status, desc, loc = m.groups()
        fn = ""
        mm = re.search(r" in function (.*)$", loc)
        if mm:
            fn = mm.group(1).strip()
        if ".cover." in cid or cid.startswith("cover") or re.search(r"\.cover\.\d+$", cid):
            res["covers"].append({"id": cid, "status": status, "desc": desc, "fn": fn})
            continue
        res["checks"] += 1
        if status == "FAILURE":
            res["failed"].append({"id": cid, "desc": desc, "fn": fn, "loc": loc})
        elif status in ("UNDETERMINED", "ERROR"):
            res["undetermined"] += 1
    m = re.search(r"VERIFICATION:- (\w+)", out)
    if m:
        res["verification"] = m.group(1)
    m = re.search(r"Verification Time: ([0-9.]+)s", out)
    if m:
        res["verif_time_s"] = float(m.group(1))
    m = re.search(r"\*\* (\d+) of (\d+) failed", out)
    if m:
        res["n_failed"], res["n_total"] = int(m.group(1)), int(m.group(2))
    m = re.search(r"\*\* (\d+) of (\d+) cover properties satisfied", out)
    if m:
        res["covers_sat"], res["covers_total"] = int(m.group(1)), int(m.group(2))
    return res


def run(scratch, harness, td, timeout_s, mem_gb=20, extra=(), logdir=None, playback=False, full=None, only_property=None, package=None):
    """Run `cargo kani` for one harness. Returns the parsed dict + 'outcome' in
    {pass, fail, inconclusive} and the raw log path."""
    os.makedirs(td, exist_ok=True)
    args = ["cargo", "kani", "-Z", "stubbing", "--harness", full or harness, "--exact", "--target-dir", td]
    if package:
        args += ["-p", package]
    if playback:
        args += ["-Z", "concrete-playback", "--concrete-playback=print"]
    args += list(extra)
    if only_property:
        # restrict CBMC to the one failed check: the trace is all that is wanted, and slicing
        # to one property makes trace generation several times cheaper
        args += ["-Z", "unstable-options", "--cbmc-args", "--property", "'" + only_property + "'"]
    cmd = f"ulimit -v {int(mem_gb * 1024 * 1024)}; exec " + " ".join(args)
    t0 = time.time()
    logp = None
    if logdir:
        os.makedirs(logdir, exist_ok=True)
        logp = os.path.join(logdir, harness.replace("::", ".") + (".playback" if playback else "") + (("." + str(abs(hash(only_property)) % 10000)) if only_property else "") + ".log")
    p = subprocess.Popen(
        ["bash", "-c", cmd],
        cwd=scratch,
        env=_env(),
        stdout=subprocess.PIPE,
        stderr=subprocess.STDOUT,
        text=True,
        start_new_session=True,
    )
    try:
        out, _ = p.communicate(timeout=timeout_s)
        timed_out = False
    except subprocess.TimeoutExpired:
        try:
            os.killpg(p.pid, signal.SIGKILL)
        except ProcessLookupError:
            pass
        out, _ = p.communicate()
        timed_out = True
    wall = time.time() - t0
    if logp:
        open(logp, "w").write(out)
    res = parse(out)
    res["harness"] = harness
    res["wall_s"] = round(wall, 1)
    res["log"] = logp
    res["raw_tail"] = out[-1500:]
    if timed_out:
        res["outcome"] = "inconclusive"
        res["why"] = f"timeout after {timeout_s}s"
    elif res["verification"] == "SUCCESSFUL" and not res["failed"] and res["undetermined"] == 0:
        res["outcome"] = "pass"
    elif res["verification"] == "FAILED" and res["failed"]:
        res["outcome"] = "fail"
    elif res["verification"] == "FAILED" and not res["failed"]:
        # e.g. unsatisfied cover only, or CBMC ERROR/out of memory
        bad_cov = [c for c in res["covers"] if c["status"] != "SATISFIED"]
        if bad_cov and res["undetermined"] == 0 and "Status: ERROR" not in out:
            res["outcome"] = "pass"  # cover handling is done by the caller
        else:
            res["outcome"] = "inconclusive"
            res["why"] = "CBMC error / undetermined"
    else:
        res["outcome"] = "inconclusive"
        if "error: no harnesses matched" in out or "no harnesses matched" in out:
            res["why"] = "harness not found"
        elif "error[" in out or "error: could not compile" in out:
            res["why"] = "compile error"
        else:
            res["why"] = "no verdict (crash / out of memory)"
    if playback:
        res["playback_tests"] = extract_playback_tests(out)
    return res


def extract_playback_tests(out):
    tests = []
    for m in re.finditer(r"Concrete playback unit test for `([^`]*)`:\n```\n(.*?)\n```", out, re.S):
        body = m.group(2)
        cm = re.search(r"Check for `[^`]*`: \"(.*)\"", body)
        nm = re.search(r"fn (kani_concrete_playback_\w+)\(", body)
        tests.append(
            {
                "harness": m.group(1),
                "check": cm.group(1).strip('"') if cm else "",
                "name": nm.group(1) if nm else "",
                "code": body,
            }
        )
    return tests


def native_replay(scratch, harness_file, test, td, timeout_s=900, package=None):
    """Append a generated concrete-playback test to the scratch harness module and run it
    natively (dev profile; cargo kani playback has no release switch that keeps debug
    assertions semantics identical, so release is run with --release separately by the caller
    when asked).  Returns (reproduced: bool, log)."""
    code = test["code"]
    with open(harness_file, "a") as f:
        f.write("\n" + code + "\n")
    cmd = (
        f"cargo kani playback -Z concrete-playback --target-dir {td}.playback -- {test['name']} --exact --nocapture"
    )
    # `cargo kani playback` rejects --target-dir on some versions: fall back to CARGO_TARGET_DIR
    env = _env()
    env["CARGO_TARGET_DIR"] = td
    cmd = f"cargo kani playback -Z concrete-playback --lib {('-p ' + package) if package else ''} -- {test['name']}"
    p = subprocess.run(
        ["bash", "-c", cmd], cwd=scratch, env=env, text=True, capture_output=True, timeout=timeout_s
    )
    out = p.stdout + p.stderr
    m = re.search(r"^test \S*" + re.escape(test["name"]) + r" \.\.\. (\w+)", out, re.M)
    if m and m.group(1) == "FAILED":
        return True, out
    if m and m.group(1) == "ok":
        return False, out
    return None, out  # could not build / run


def replay_id(s):
    return hashlib.sha1(s.encode()).hexdigest()[:12]
