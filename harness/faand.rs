// Kani harnesses appended (as child module `__verif`) to src/mpc/faand.rs.
#![allow(unused_imports, dead_code, clippy::all)]
use super::*;

include!("/verif/harness/common.rs");

fn mk(m: u128, k: u128) -> (Mac, Key) {
    (Mac(m), Key(k))
}

#[kani::proof]
fn c10_bucket_size_table() {
    let n: usize = kani::any();
    let b = bucket_size(n);
    let exp = if n >= 280_000 { 3 } else if n >= 3_100 { 4 } else { 5 };
    assert!(b == exp, "C10:bucket_size:table(5 below 3100, 4 from 3100, 3 from 280000)");
    kani::cover!(n == 3_099 && b == 5, "bucket_boundary_reachable");
}

// ------------------------------------------------------------------------------------------
// combine_two_leaky_ands as an inductive step.
//
// Views: party p holds for each triple component a Share(bit, Auth[(mac_p[q], key_p[q])]).
// Validity of a component c across parties (ordered pair p != q):
//     mac_p[q](c) == key_q[p](c) ^ (bit_p(c) & delta_q)
// AND relation of a triple: (xor_p x_p) & (xor_p y_p) == xor_p z_p.
// Step: triple 1 valid (may itself be a combination), leaky triple 2 valid,
//       d = y1 ^ y2 opened honestly (d = xor_p (y1_p ^ y2_p)).
// Claim: result valid, AND relation holds, and result.y == triple1.y (same share objects).

macro_rules! combine_step {
    ($name:ident, $n:expr, [$($p:expr),*]) => {
        #[kani::proof]
        #[kani::unwind(8)]
        fn $name() {
            const N: usize = $n;
            let delta: [u128; N] = kani::any();
            // bits[c][p], mac[c][p][q], key[c][p][q] for components c: x1,y1,z1,x2,y2,z2
            let bits: [[bool; N]; 6] = kani::any();
            let mac: [[[u128; N]; N]; 6] = kani::any();
            let key: [[[u128; N]; N]; 6] = kani::any();
            // validity of all six components for every ordered pair
            let mut c = 0;
            while c < 6 {
                let mut p = 0;
                while p < N {
                    let mut q = 0;
                    while q < N {
                        if p != q {
                            kani::assume(mac[c][p][q] == key[c][q][p] ^ (if bits[c][p] { delta[q] } else { 0 }));
                        }
                        q += 1;
                    }
                    p += 1;
                }
                c += 1;
            }
            let mut xs = [false; 6];
            let mut c = 0;
            while c < 6 {
                let mut p = 0;
                while p < N {
                    xs[c] ^= bits[c][p];
                    p += 1;
                }
                c += 1;
            }
            // AND relations of both input triples
            kani::assume((xs[0] & xs[1]) == xs[2]);
            kani::assume((xs[3] & xs[4]) == xs[5]);
            let d = xs[1] ^ xs[4];
            // run the real function once per party
            let mk_share = |c: usize, p: usize| -> Share {
                Share(bits[c][p], Auth(vec![$( mk(mac[c][p][$p], key[c][p][$p]) ),*]))
            };
            let mut rbits = [[false; N]; 3];
            let mut rmac = [[[0u128; N]; N]; 3];
            let mut rkey = [[[0u128; N]; N]; 3];
            let mut p = 0;
            while p < N {
                let x2 = mk_share(3, p);
                let y2 = mk_share(4, p);
                let z2 = mk_share(5, p);
                let r = combine_two_leaky_ands(p, N, (mk_share(0, p), mk_share(1, p), mk_share(2, p)), (&x2, &y2, &z2), d);
                let ok = r.is_ok();
                assert!(ok, "C10:combine_two:returns-Ok");
                if let Ok((rx, ry, rz)) = r {
                    assert!(rx.1 .0.len() == N && ry.1 .0.len() == N && rz.1 .0.len() == N, "C10:combine_two:auth-length==n");
                    let comps = [&rx, &ry, &rz];
                    let mut c = 0;
                    while c < 3 {
                        rbits[c][p] = comps[c].0;
                        let mut q = 0;
                        while q < N {
                            rmac[c][p][q] = comps[c].1 .0[q].0 .0;
                            rkey[c][p][q] = comps[c].1 .0[q].1 .0;
                            q += 1;
                        }
                        c += 1;
                    }
                    std::mem::forget((rx, ry, rz));
                }
                std::mem::forget((x2, y2, z2));
                p += 1;
            }
            // y of the result is y1 unchanged (makes the next d = y_0 ^ y_k the right one)
            let mut y_same = true;
            let mut p = 0;
            while p < N {
                y_same &= rbits[1][p] == bits[1][p];
                let mut q = 0;
                while q < N {
                    if p != q {
                        y_same &= rmac[1][p][q] == mac[1][p][q] && rkey[1][p][q] == key[1][p][q];
                    }
                    q += 1;
                }
                p += 1;
            }
            assert!(y_same, "C10:combine_two:y==y1");
            // MAC relation for every component and ordered pair
            let mut valid = true;
            let mut c = 0;
            while c < 3 {
                let mut p = 0;
                while p < N {
                    let mut q = 0;
                    while q < N {
                        if p != q {
                            valid &= rmac[c][p][q] == rkey[c][q][p] ^ (if rbits[c][p] { delta[q] } else { 0 });
                        }
                        q += 1;
                    }
                    p += 1;
                }
                c += 1;
            }
            assert!(valid, "C10:combine_two:mac==key^bit*delta-for-every-ordered-pair");
            let mut r = [false; 3];
            let mut c = 0;
            while c < 3 {
                let mut p = 0;
                while p < N {
                    r[c] ^= rbits[c][p];
                    p += 1;
                }
                c += 1;
            }
            assert!(r[0] == (xs[0] ^ xs[3]), "C10:combine_two:x==x1^x2");
            assert!((r[0] & r[1]) == r[2], "C10:combine_two:AND-relation");
            kani::cover!(d && xs[3] && r[2], "combine_nontrivial_reachable");
        }
    };
}
combine_step!(c10_combine_two_n2, 2, [0, 1]);
combine_step!(c10_combine_two_n3, 3, [0, 1, 2]);

/// combine_bucket fold order at n=2, bucket of 3: element k is combined with d_vec[k-1];
/// an empty bucket is an error. Checked against two explicit combine_two_leaky_ands calls.
#[kani::proof]
#[kani::unwind(11)]
fn c10_combine_bucket_fold_b3() {
    let bits: [bool; 9] = kani::any();
    let m: [u128; 9] = kani::any();
    let k: [u128; 9] = kani::any();
    let s = |c: usize| Share(bits[c], Auth(vec![mk(0, 0), mk(m[c], k[c])]));
    let sh: [Share; 9] = [s(0), s(1), s(2), s(3), s(4), s(5), s(6), s(7), s(8)];
    let d1: bool = kani::any();
    let d2: bool = kani::any();
    let bucket = vec![(&sh[0], &sh[1], &sh[2]), (&sh[3], &sh[4], &sh[5]), (&sh[6], &sh[7], &sh[8])];
    let r = combine_bucket(0, 2, bucket, vec![d1, d2]);
    let e1 = combine_two_leaky_ands(0, 2, (sh[0].clone(), sh[1].clone(), sh[2].clone()), (&sh[3], &sh[4], &sh[5]), d1);
    let ok = r.is_ok() && e1.is_ok();
    assert!(ok, "C10:combine_bucket:Ok-on-nonempty");
    if let (Ok(r), Ok(e1)) = (r, e1) {
        let e2 = combine_two_leaky_ands(0, 2, e1, (&sh[6], &sh[7], &sh[8]), d2);
        if let Ok(e2) = e2 {
            let same = r.0 .0 == e2.0 .0 && r.2 .0 == e2.2 .0 && r.1 .0 == e2.1 .0
                && r.0 .1 .0[1] == e2.0 .1 .0[1] && r.2 .1 .0[1] == e2.2 .1 .0[1] && r.1 .1 .0[1] == e2.1 .1 .0[1];
            assert!(same, "C10:combine_bucket:fold-order(d_vec[k-1] goes with element k)");
            kani::cover!(d1 != d2 && bits[3] != bits[6], "fold_order_distinguishable_reachable");
            std::mem::forget(e2);
        }
        std::mem::forget(r);
    }
    let empty: Vec<(&Share, &Share, &Share)> = vec![];
    let re = combine_bucket(0, 2, empty, vec![]);
    let is_err = re.is_err();
    std::mem::forget(re);
    assert!(is_err, "C10:combine_bucket:empty-bucket-is-Err");
    std::mem::forget(sh);
}

// ------------------------------------------------------------------------------------------
// chunked_update_with_rbits: element k is visited with bit (k mod 128) of block (k div 128),
// low 64 bits first; every element is visited exactly once, in order.

macro_rules! chunked_bool {
    ($name:ident, $len:expr, $blocks:expr, $unw:expr) => {
        #[kani::proof]
        #[kani::unwind($unw)]
        fn $name() {
            const LEN: usize = $len;
            const NB: usize = $blocks;
            let x: [bool; LEN] = kani::any();
            let rb: [u128; NB] = kani::any();
            let mut rblocks = [Block::ZERO; NB];
            let mut b = 0;
            while b < NB {
                rblocks[b] = Block::from(rb[b]);
                b += 1;
            }
            let mut k = 0usize;
            let mut ok = true;
            let mut acc = false;
            chunked_update_with_rbits(&x[..], &rblocks[..], |xi, rbit| {
                let exp = ((rb[k / 128] >> (k % 128)) & 1) as u64;
                ok &= rbit == exp && *xi == x[k];
                acc ^= *xi & (rbit != 0);
                k += 1;
            });
            assert!(k == LEN, "C10:chunked_update:every-element-visited-once");
            assert!(ok, "C10:chunked_update:element-k-gets-bit-k-of-rbits");
            kani::cover!(acc, "chunked_update_nontrivial_reachable");
        }
    };
}
chunked_bool!(c10_chunked_bool_1, 1, 1, 130);
chunked_bool!(c10_chunked_bool_63, 63, 1, 130);
chunked_bool!(c10_chunked_bool_64, 64, 1, 130);
chunked_bool!(c10_chunked_bool_65, 65, 1, 130);
chunked_bool!(c10_chunked_bool_127, 127, 1, 130);
chunked_bool!(c10_chunked_bool_128, 128, 1, 130);
chunked_bool!(c10_chunked_bool_129, 129, 2, 131);
chunked_bool!(c10_chunked_bool_130, 130, 2, 132);
chunked_bool!(c10_chunked_bool_192, 192, 2, 194);
chunked_bool!(c10_chunked_bool_193, 193, 2, 195);
chunked_bool!(c10_chunked_bool_256, 256, 2, 258);
chunked_bool!(c10_chunked_bool_257, 257, 3, 259);

macro_rules! chunked_u128 {
    ($name:ident, $len:expr, $blocks:expr, $unw:expr) => {
        #[kani::proof]
        #[kani::unwind($unw)]
        fn $name() {
            const LEN: usize = $len;
            const NB: usize = $blocks;
            let x: [u128; LEN] = kani::any();
            let rb: [u128; NB] = kani::any();
            let mut rblocks = [Block::ZERO; NB];
            let mut b = 0;
            while b < NB {
                rblocks[b] = Block::from(rb[b]);
                b += 1;
            }
            let mut k = 0usize;
            let mut ok = true;
            chunked_update_with_rbits(&x[..], &rblocks[..], |xi, rbit| {
                let exp = ((rb[k / 128] >> (k % 128)) & 1) as u64;
                ok &= rbit == exp && *xi == x[k];
                k += 1;
            });
            assert!(k == LEN, "C10:chunked_update:every-element-visited-once");
            assert!(ok, "C10:chunked_update:element-k-gets-bit-k-of-rbits");
            kani::cover!(k == LEN, "chunked_update_done_reachable");
        }
    };
}
chunked_u128!(c10_chunked_u128_65, 65, 1, 130);
chunked_u128!(c10_chunked_u128_129, 129, 2, 131);
chunked_u128!(c10_chunked_u128_193, 193, 2, 195);
