// Kani harnesses appended (as child module `__verif`) to src/mpc/faand.rs.
#![allow(unused_imports, dead_code, clippy::all)]
use super::*;

include!("/verif/harness/common.rs");
/// Property-scoped assertion: a harness body shared by several properties is instantiated once
/// per owning property; only the assertions of that property are active in an instance (Kani
/// stops a path at the first failed assertion, so assertions of another property placed
/// earlier would otherwise shadow the later ones).
#[allow(unused_macros)]
macro_rules! pa {
    ($own:expr, $p:expr, $cond:expr, $msg:expr) => {
        if $own == $p {
            assert!($cond, $msg);
        }
    };
}


fn mk(m: u128, k: u128) -> (Mac, Key) {
    (Mac(m), Key(k))
}

#[kani::proof]
fn c10_bucket_size_table() {
    let n: usize = kani::any();
    let b = bucket_size(n);
    let exp = if n >= 280_000 { 3 } else if n >= 3_100 { 4 } else { 5 };
    assert!(b == exp, "C10:bucket_size:table(5 below 3100, 4 from 3100, 3 from 280000)");
    kani::cover!(n == 3_099 && b == 5, "bucket_boundary_reachable");
}

// ------------------------------------------------------------------------------------------
// combine_two_leaky_ands as an inductive step.
//
// Views: party p holds for each triple component a Share(bit, Auth[(mac_p[q], key_p[q])]).
// Validity of a component c across parties (ordered pair p != q):
//     mac_p[q](c) == key_q[p](c) ^ (bit_p(c) & delta_q)
// AND relation of a triple: (xor_p x_p) & (xor_p y_p) == xor_p z_p.
// Step: triple 1 valid (may itself be a combination), leaky triple 2 valid,
//       d = y1 ^ y2 opened honestly (d = xor_p (y1_p ^ y2_p)).
// Claim: result valid, AND relation holds, and result.y == triple1.y (same share objects).

macro_rules! combine_step {
    ($name:ident, $n:expr, [$($p:expr),*]) => {
        #[kani::proof]
        #[kani::unwind(8)]
        fn $name() {
            const N: usize = $n;
            let delta: [u128; N] = kani::any();
            // bits[c][p], mac[c][p][q], key[c][p][q] for components c: x1,y1,z1,x2,y2,z2
            let bits: [[bool; N]; 6] = kani::any();
            let mac: [[[u128; N]; N]; 6] = kani::any();
            let key: [[[u128; N]; N]; 6] = kani::any();
            // validity of all six components for every ordered pair
            let mut c = 0;
            while c < 6 {
                let mut p = 0;
                while p < N {
                    let mut q = 0;
                    while q < N {
                        if p != q {
                            kani::assume(mac[c][p][q] == key[c][q][p] ^ (if bits[c][p] { delta[q] } else { 0 }));
                        }
                        q += 1;
                    }
                    p += 1;
                }
                c += 1;
            }
            let mut xs = [false; 6];
            let mut c = 0;
            while c < 6 {
                let mut p = 0;
                while p < N {
                    xs[c] ^= bits[c][p];
                    p += 1;
                }
                c += 1;
            }
            // AND relations of both input triples
            kani::assume((xs[0] & xs[1]) == xs[2]);
            kani::assume((xs[3] & xs[4]) == xs[5]);
            let d = xs[1] ^ xs[4];
            // run the real function once per party
            let mk_share = |c: usize, p: usize| -> Share {
                Share(bits[c][p], Auth(vec![$( mk(mac[c][p][$p], key[c][p][$p]) ),*]))
            };
            let mut rbits = [[false; N]; 3];
            let mut rmac = [[[0u128; N]; N]; 3];
            let mut rkey = [[[0u128; N]; N]; 3];
            let mut p = 0;
            while p < N {
                let x2 = mk_share(3, p);
                let y2 = mk_share(4, p);
                let z2 = mk_share(5, p);
                let r = combine_two_leaky_ands(p, N, (mk_share(0, p), mk_share(1, p), mk_share(2, p)), (&x2, &y2, &z2), d);
                let ok = r.is_ok();
                assert!(ok, "C10:combine_two:returns-Ok");
                if let Ok((rx, ry, rz)) = r {
                    assert!(rx.1 .0.len() == N && ry.1 .0.len() == N && rz.1 .0.len() == N, "C10:combine_two:auth-length==n");
                    let comps = [&rx, &ry, &rz];
                    let mut c = 0;
                    while c < 3 {
                        rbits[c][p] = comps[c].0;
                        let mut q = 0;
                        while q < N {
                            rmac[c][p][q] = comps[c].1 .0[q].0 .0;
                            rkey[c][p][q] = comps[c].1 .0[q].1 .0;
                            q += 1;
                        }
                        c += 1;
                    }
                    std::mem::forget((rx, ry, rz));
                }
                std::mem::forget((x2, y2, z2));
                p += 1;
            }
            // y of the result is y1 unchanged (makes the next d = y_0 ^ y_k the right one)
            let mut y_same = true;
            let mut p = 0;
            while p < N {
                y_same &= rbits[1][p] == bits[1][p];
                let mut q = 0;
                while q < N {
                    if p != q {
                        y_same &= rmac[1][p][q] == mac[1][p][q] && rkey[1][p][q] == key[1][p][q];
                    }
                    q += 1;
                }
                p += 1;
            }
            assert!(y_same, "C10:combine_two:y==y1");
            // MAC relation for every component and ordered pair
            let mut valid = true;
            let mut c = 0;
            while c < 3 {
                let mut p = 0;
                while p < N {
                    let mut q = 0;
                    while q < N {
                        if p != q {
                            valid &= rmac[c][p][q] == rkey[c][q][p] ^ (if rbits[c][p] { delta[q] } else { 0 });
                        }
                        q += 1;
                    }
                    p += 1;
                }
                c += 1;
            }
            assert!(valid, "C10:combine_two:mac==key^bit*delta-for-every-ordered-pair");
            let mut r = [false; 3];
            let mut c = 0;
            while c < 3 {
                let mut p = 0;
                while p < N {
                    r[c] ^= rbits[c][p];
                    p += 1;
                }
                c += 1;
            }
            assert!(r[0] == (xs[0] ^ xs[3]), "C10:combine_two:x==x1^x2");
            assert!((r[0] & r[1]) == r[2], "C10:combine_two:AND-relation");
            kani::cover!(d && xs[3] && r[2], "combine_nontrivial_reachable");
        }
    };
}
combine_step!(c10_combine_two_n2, 2, [0, 1]);
combine_step!(c10_combine_two_n3, 3, [0, 1, 2]);

/// combine_bucket fold order at n=2, bucket of 3: element k is combined with d_vec[k-1];
/// an empty bucket is an error. Checked against two explicit combine_two_leaky_ands calls.
#[kani::proof]
#[kani::unwind(11)]
fn c10_combine_bucket_fold_b3() {
    let bits: [bool; 9] = kani::any();
    let m: [u128; 9] = kani::any();
    let k: [u128; 9] = kani::any();
    let s = |c: usize| Share(bits[c], Auth(vec![mk(0, 0), mk(m[c], k[c])]));
    let sh: [Share; 9] = [s(0), s(1), s(2), s(3), s(4), s(5), s(6), s(7), s(8)];
    let d1: bool = kani::any();
    let d2: bool = kani::any();
    let bucket = vec![(&sh[0], &sh[1], &sh[2]), (&sh[3], &sh[4], &sh[5]), (&sh[6], &sh[7], &sh[8])];
    let r = combine_bucket(0, 2, bucket, vec![d1, d2]);
    let e1 = combine_two_leaky_ands(0, 2, (sh[0].clone(), sh[1].clone(), sh[2].clone()), (&sh[3], &sh[4], &sh[5]), d1);
    let ok = r.is_ok() && e1.is_ok();
    assert!(ok, "C10:combine_bucket:Ok-on-nonempty");
    if let (Ok(r), Ok(e1)) = (r, e1) {
        let e2 = combine_two_leaky_ands(0, 2, e1, (&sh[6], &sh[7], &sh[8]), d2);
        if let Ok(e2) = e2 {
            let same = r.0 .0 == e2.0 .0 && r.2 .0 == e2.2 .0 && r.1 .0 == e2.1 .0
                && r.0 .1 .0[1] == e2.0 .1 .0[1] && r.2 .1 .0[1] == e2.2 .1 .0[1] && r.1 .1 .0[1] == e2.1 .1 .0[1];
            assert!(same, "C10:combine_bucket:fold-order(d_vec[k-1] goes with element k)");
            kani::cover!(d1 != d2 && bits[3] != bits[6], "fold_order_distinguishable_reachable");
            std::mem::forget(e2);
        }
        std::mem::forget(r);
    }
    let empty: Vec<(&Share, &Share, &Share)> = vec![];
    let re = combine_bucket(0, 2, empty, vec![]);
    let is_err = re.is_err();
    std::mem::forget(re);
    assert!(is_err, "C10:combine_bucket:empty-bucket-is-Err");
    std::mem::forget(sh);
}

// ------------------------------------------------------------------------------------------
// chunked_update_with_rbits: element k is visited with bit (k mod 128) of block (k div 128),
// low 64 bits first; every element is visited exactly once, in order.

macro_rules! chunked_bool {
    ($name:ident, $len:expr, $blocks:expr, $unw:expr) => {
        #[kani::proof]
        #[kani::unwind($unw)]
        fn $name() {
            const LEN: usize = $len;
            const NB: usize = $blocks;
            let x: [bool; LEN] = kani::any();
            let rb: [u128; NB] = kani::any();
            let mut rblocks = [Block::ZERO; NB];
            let mut b = 0;
            while b < NB {
                rblocks[b] = Block::from(rb[b]);
                b += 1;
            }
            let mut k = 0usize;
            let mut ok = true;
            let mut acc = false;
            chunked_update_with_rbits(&x[..], &rblocks[..], |xi, rbit| {
                let exp = ((rb[k / 128] >> (k % 128)) & 1) as u64;
                ok &= rbit == exp && *xi == x[k];
                acc ^= *xi & (rbit != 0);
                k += 1;
            });
            assert!(k == LEN, "C10:chunked_update:every-element-visited-once");
            assert!(ok, "C10:chunked_update:element-k-gets-bit-k-of-rbits");
            kani::cover!(acc, "chunked_update_nontrivial_reachable");
        }
    };
}
chunked_bool!(c10_chunked_bool_1, 1, 1, 130);
chunked_bool!(c10_chunked_bool_63, 63, 1, 130);
chunked_bool!(c10_chunked_bool_64, 64, 1, 130);
chunked_bool!(c10_chunked_bool_65, 65, 1, 130);
chunked_bool!(c10_chunked_bool_127, 127, 1, 130);
chunked_bool!(c10_chunked_bool_128, 128, 1, 130);
chunked_bool!(c10_chunked_bool_129, 129, 2, 131);
chunked_bool!(c10_chunked_bool_130, 130, 2, 132);
chunked_bool!(c10_chunked_bool_192, 192, 2, 194);
chunked_bool!(c10_chunked_bool_193, 193, 2, 195);
chunked_bool!(c10_chunked_bool_256, 256, 2, 258);
chunked_bool!(c10_chunked_bool_257, 257, 3, 259);

macro_rules! chunked_u128 {
    ($name:ident, $len:expr, $blocks:expr, $unw:expr) => {
        #[kani::proof]
        #[kani::unwind($unw)]
        fn $name() {
            const LEN: usize = $len;
            const NB: usize = $blocks;
            let x: [u128; LEN] = kani::any();
            let rb: [u128; NB] = kani::any();
            let mut rblocks = [Block::ZERO; NB];
            let mut b = 0;
            while b < NB {
                rblocks[b] = Block::from(rb[b]);
                b += 1;
            }
            let mut k = 0usize;
            let mut ok = true;
            chunked_update_with_rbits(&x[..], &rblocks[..], |xi, rbit| {
                let exp = ((rb[k / 128] >> (k % 128)) & 1) as u64;
                ok &= rbit == exp && *xi == x[k];
                k += 1;
            });
            assert!(k == LEN, "C10:chunked_update:every-element-visited-once");
            assert!(ok, "C10:chunked_update:element-k-gets-bit-k-of-rbits");
            kani::cover!(k == LEN, "chunked_update_done_reachable");
        }
    };
}
chunked_u128!(c10_chunked_u128_65, 65, 1, 130);
chunked_u128!(c10_chunked_u128_129, 129, 2, 131);
chunked_u128!(c10_chunked_u128_193, 193, 2, 195);

// =============================================================================================
// Segment harnesses (see runner/segments.py): synchronous statement runs between two awaits.
include!("/verif/harness/segs_faand.rs");

/// Environment stand-in for the BLAKE3 commitment check inside cut segments: an arbitrary
/// verdict per call (the hash itself is not the subject; DESIGN §2 item 2).
fn env_open_commitment(_c: &Commitment, _v: &[u8]) -> bool {
    let v: bool = kani::any();
    unsafe {
        if ENV_OPEN_N < 4 {
            ENV_OPEN_LOG[ENV_OPEN_N] = v;
        }
        ENV_OPEN_N += 1;
        ENV_OPEN_LAST = v;
    }
    v
}

/// Log of the verdicts env_open_commitment handed out (in call order).
static mut ENV_OPEN_LOG: [bool; 4] = [false; 4];
static mut ENV_OPEN_N: usize = 0;
static mut ENV_OPEN_LAST: bool = true;

fn open_log_reset() {
    unsafe {
        ENV_OPEN_N = 0;
    }
}

fn open_log_all_true() -> bool {
    unsafe {
        let mut ok = true;
        let mut k = 0;
        while k < 4 {
            if k < ENV_OPEN_N {
                ok &= ENV_OPEN_LOG[k];
            }
            k += 1;
        }
        ok
    }
}

fn sh2(bit: bool, m0: u128, k0: u128, m1: u128, k1: u128) -> Share {
    Share(bit, Auth(vec![(Mac(m0), Key(k0)), (Mac(m1), Key(k1))]))
}

fn any_share2() -> Share {
    sh2(kani::any(), kani::any(), kani::any(), kani::any(), kani::any())
}

/// C02/C04 - bucket combination, opening of the d-values (n = 2, own index 0, one bucket of
/// three triples, i.e. two d-values): whatever the peer sent (lengths of the inner vectors
/// included), Ok(d) implies that the peer opened exactly two d-bits with two MACs that verify
/// under the own keys, and d is own ^ peer. No input may panic (C08).
fn check_dvalue_tail_n2_b3(prop_own: u8) {
    let delta = Delta(kani::any());
    let ys = [any_share2(), any_share2(), any_share2()];
    let xs = [any_share2(), any_share2(), any_share2()];
    let zs = [any_share2(), any_share2(), any_share2()];
    let ykeys = [ys[0].1 .0[1].1 .0, ys[1].1 .0[1].1 .0, ys[2].1 .0[1].1 .0];
    let own_d = [ys[0].0 ^ ys[1].0, ys[0].0 ^ ys[2].0];
    let bucket: Bucket = vec![(&xs[0], &ys[0], &zs[0]), (&xs[1], &ys[1], &zs[1]), (&xs[2], &ys[2], &zs[2])];
    let buckets = [bucket];
    // peer's message: one entry (outer length is checked by recv_vec_from), inner lengths free
    let pd = any_vec_bool_le3();
    let pm_len: u8 = kani::any();
    let pm: Vec<Mac> = match pm_len {
        0 => vec![],
        1 => vec![Mac(kani::any())],
        2 => vec![Mac(kani::any()), Mac(kani::any())],
        _ => vec![Mac(kani::any()), Mac(kani::any()), Mac(kani::any())],
    };
    let pd_len = pd.len();
    let pm_len = pm.len();
    let pd0 = if pd_len > 0 { pd[0] } else { false };
    let pd1 = if pd_len > 1 { pd[1] } else { false };
    let pm0 = if pm_len > 0 { pm[0].0 } else { 0 };
    let pm1 = if pm_len > 1 { pm[1].0 } else { 0 };
    let r = seg_check_dvalue_tail(delta, 0, 2, &buckets, vec![vec![own_d[0], own_d[1]]], 1, vec![vec![], vec![(pd, pm)]]);
    let ok = r.is_ok();
    kani::cover!(ok, "dvalue_ok_reachable");
    kani::cover!(!ok, "dvalue_err_reachable");
    if let Ok(d) = &r {
        pa!(prop_own, 2, pd_len >= 2 && pm_len >= 2, "C02:dvalue:short-or-empty-opening-not-accepted");
        if pd_len >= 2 && pm_len >= 2 {
            pa!(prop_own, 4, pm0 == ykeys[0] ^ ykeys[1] ^ (if pd0 { delta.0 } else { 0 }), "C04:dvalue:MAC-of-d1-verified");
            pa!(prop_own, 4, pm1 == ykeys[0] ^ ykeys[2] ^ (if pd1 { delta.0 } else { 0 }), "C04:dvalue:MAC-of-d2-verified");
            pa!(prop_own, 10, d.len() == 1 && d[0].len() == 2 && d[0][0] == (own_d[0] ^ pd0) && d[0][1] == (own_d[1] ^ pd1), "C10:dvalue:d==own^peer");
        }
    }
    std::mem::forget(r);
    std::mem::forget(buckets);
    std::mem::forget((xs, ys, zs));
}

macro_rules! check_dvalue_tail_n2_b3_variant {
    ($name:ident, $own:expr) => {
        #[kani::proof]
        #[kani::unwind(6)]
        #[kani::stub(std::fmt::format, no_format)]
        fn $name() {
            check_dvalue_tail_n2_b3($own);
        }
    };
}
check_dvalue_tail_n2_b3_variant!(c04_check_dvalue_tail_n2_b3, 4);
check_dvalue_tail_n2_b3_variant!(c04_check_dvalue_tail_n2_b3__c02, 2);
check_dvalue_tail_n2_b3_variant!(c04_check_dvalue_tail_n2_b3__c10, 10);


/// C04 - Beaver derandomisation, check of the opened (d, e) values (n = 2, own index 0, two
/// triples): Ok implies that for every triple BOTH of the peer's MACs (on d and on e) verify
/// under the own keys of the d/e shares; the returned openings are own ^ peer.
fn beaver_check_n2(prop_own: u8) {
    let delta = Delta(kani::any());
    let dk: [u128; 2] = [kani::any(), kani::any()];
    let ek: [u128; 2] = [kani::any(), kani::any()];
    let own_d: [bool; 2] = [kani::any(), kani::any()];
    let own_e: [bool; 2] = [kani::any(), kani::any()];
    let pd: [bool; 2] = [kani::any(), kani::any()];
    let pe: [bool; 2] = [kani::any(), kani::any()];
    let pdm: [u128; 2] = [kani::any(), kani::any()];
    let pem: [u128; 2] = [kani::any(), kani::any()];
    let sh = |b: bool, k: u128| Share(b, Auth(vec![(Mac(0), Key(0)), (Mac(kani::any()), Key(k))]));
    let de_shares = vec![(sh(own_d[0], dk[0]), sh(own_e[0], ek[0])), (sh(own_d[1], dk[1]), sh(own_e[1], ek[1]))];
    let r = seg_beaver_check(
        delta,
        0,
        2,
        de_shares,
        vec![(own_d[0], own_e[0], Mac(0), Mac(0)), (own_d[1], own_e[1], Mac(0), Mac(0))],
        vec![vec![], vec![(pd[0], pe[0], Mac(pdm[0]), Mac(pem[0])), (pd[1], pe[1], Mac(pdm[1]), Mac(pem[1]))]],
    );
    let ok = r.is_ok();
    kani::cover!(ok, "beaver_check_ok_reachable");
    kani::cover!(!ok, "beaver_check_err_reachable");
    if let Ok(v) = &r {
        let mut j = 0;
        while j < 2 {
            pa!(prop_own, 4, pdm[j] == dk[j] ^ (if pd[j] { delta.0 } else { 0 }), "C04:beaver:MAC-of-d-verified");
            pa!(prop_own, 4, pem[j] == ek[j] ^ (if pe[j] { delta.0 } else { 0 }), "C04:beaver:MAC-of-e-verified");
            pa!(prop_own, 10, v.len() == 2 && v[j].0 == (own_d[j] ^ pd[j]) && v[j].1 == (own_e[j] ^ pe[j]), "C10:beaver:opened-d,e==own^peer");
            j += 1;
        }
    }
    std::mem::forget(r);
}

macro_rules! beaver_check_n2_variant {
    ($name:ident, $own:expr) => {
        #[kani::proof]
        #[kani::unwind(5)]
        #[kani::stub(std::fmt::format, no_format)]
        fn $name() {
            beaver_check_n2($own);
        }
    };
}
beaver_check_n2_variant!(c04_beaver_check_n2, 4);
beaver_check_n2_variant!(c04_beaver_check_n2__c10, 10);


/// C10 - Beaver derandomisation, final share (n = 2, own index 0, one triple):
///   share == c ^ (d ? beta : 0) ^ (e ? a : 0)   (bit, MAC and key towards the peer).
fn beaver_final_n2(d: bool, e: bool) {
    // raw components: [a, b, c, alpha, beta] x (bit, mac1, key1); entry 0 (own index) is zero
    let bits: [bool; 5] = [kani::any(), kani::any(), kani::any(), kani::any(), kani::any()];
    let m: [u128; 5] = [kani::any(), kani::any(), kani::any(), kani::any(), kani::any()];
    let k: [u128; 5] = [kani::any(), kani::any(), kani::any(), kani::any(), kani::any()];
    let s = |c: usize| Share(bits[c], Auth(vec![(Mac(0), Key(0)), (Mac(m[c]), Key(k[c]))]));
    let ab = [(s(3), s(4))];
    let abc = [(s(0), s(1), s(2))];
    let de = [(d, e, Mac(0), Mac(0))];
    let r = seg_beaver_final(1, &abc, &ab, &de);
    let ok = r.is_ok();
    assert!(ok, "C10:beaver:final-step-returns-Ok");
    if let Ok(sv) = &r {
        assert!(sv.len() == 1, "C10:beaver:one-share-per-triple");
        if sv.len() == 1 {
            let eb = bits[2] ^ (d & bits[4]) ^ (e & bits[0]);
            let em = m[2] ^ (if d { m[4] } else { 0 }) ^ (if e { m[0] } else { 0 });
            let ek = k[2] ^ (if d { k[4] } else { 0 }) ^ (if e { k[0] } else { 0 });
            assert!(sv[0].0 == eb, "C10:beaver:bit==c^d*beta^e*a");
            assert!(sv[0].1 .0.len() == 2 && sv[0].1 .0[1].0 .0 == em && sv[0].1 .0[1].1 .0 == ek, "C10:beaver:mac/key==c^d*beta^e*a");
        }
    }
    kani::cover!(ok, "beaver_final_reachable");
    std::mem::forget(r);
    std::mem::forget(ab);
    std::mem::forget(abc);
}

macro_rules! beaver_final_variant {
    ($name:ident, $d:expr, $e:expr) => {
        #[kani::proof]
        #[kani::unwind(5)]
        #[kani::stub(std::fmt::format, no_format)]
        fn $name() {
            beaver_final_n2($d, $e);
        }
    };
}
beaver_final_variant!(c10_beaver_final_n2_d0e0, false, false);
beaver_final_variant!(c10_beaver_final_n2_d0e1, false, true);
beaver_final_variant!(c10_beaver_final_n2_d1e0, true, false);
beaver_final_variant!(c10_beaver_final_n2_d1e1, true, true);

/// Peer's decommitment for one check object with an arbitrary inner length 0..=17 and
/// arbitrary content (recv_vec_from only validates the outer length).
fn any_dm_le17(a: [u8; 17]) -> Vec<u8> {
    let l: u8 = kani::any();
    match l {
        0 => vec![],
        1 => vec![a[0]],
        16 => vec![a[0], a[1], a[2], a[3], a[4], a[5], a[6], a[7], a[8], a[9], a[10], a[11], a[12], a[13], a[14], a[15]],
        _ => vec![a[0], a[1], a[2], a[3], a[4], a[5], a[6], a[7], a[8], a[9], a[10], a[11], a[12], a[13], a[14], a[15], a[16]],
    }
}

fn dm17(a: [u8; 17]) -> Vec<u8> {
    vec![a[0], a[1], a[2], a[3], a[4], a[5], a[6], a[7], a[8], a[9], a[10], a[11], a[12], a[13], a[14], a[15], a[16]]
}

fn mac_of(a: &[u8; 17]) -> u128 {
    let mut mb = [0u8; 16];
    let mut b = 0;
    while b < 16 {
        mb[b] = a[1 + b];
        b += 1;
    }
    u128::from_be_bytes(mb)
}

/// C07/C08 - aShare consistency round, step 3c (n = 2, own index 0; the statistical parameter
/// is lowered to 2 check objects inside the cut segment, both symbolic): (C08) no peer
/// decommitment may panic; (C07) the value opened for an object is d0 ^ (claimed bit * delta)
/// only if the peer's claim is backed by a MAC that verifies under the own key (= d0 for
/// n = 2) - otherwise a lying peer obtains d0 ^ delta and, with the MAC it holds, the global key.
fn fashare_3c_n2(prop_own: u8) {
    let delta: u128 = kani::any();
    let key: [u128; 2] = kani::any(); // own keys for the peer's check bits = d0 (n = 2)
    let own: [[u8; 17]; 2] = kani::any();
    let peer: [[u8; 17]; 2] = kani::any();
    let p0 = any_dm_le17(peer[0]);
    let p1 = any_dm_le17(peer[1]);
    let lens = [p0.len(), p1.len()];
    let dm_k = vec![vec![dm17(own[0]), dm17(own[1])], vec![p0, p1]];
    let r = seg_fashare_3c(0, 2, dm_k, vec![key[0], key[1]], vec![key[0] ^ delta, key[1] ^ delta]);
    let ok = r.is_ok();
    kani::cover!(ok, "fashare3c_ok_reachable");
    kani::cover!(!ok, "fashare3c_err_reachable");
    if let Ok(di_bi) = &r {
        pa!(prop_own, 10, di_bi.len() == 2, "C10:fashare3c:one-opening-per-check-object");
        let mut j = 0;
        while j < 2 {
            let claimed = peer[j][0];
            pa!(prop_own, 4, lens[j] == 0 || claimed <= 1, "C04:fashare3c:non-bit-claim-rejected");
            let opened = di_bi[j];
            pa!(prop_own, 7, opened == key[j] || opened == key[j] ^ delta, "C07:fashare3c:opens-d0-or-d1");
            if opened == (key[j] ^ delta) && delta != 0 {
                pa!(prop_own, 7, lens[j] == 17 && mac_of(&peer[j]) == key[j] ^ delta, "C07:fashare3c:d0^delta-opened-only-for-a-claim-whose-MAC-verifies");
            }
            j += 1;
        }
    }
    std::mem::forget(r);
}

macro_rules! fashare_3c_n2_variant {
    ($name:ident, $own:expr) => {
        #[kani::proof]
        #[kani::unwind(20)]
        #[kani::stub(std::fmt::format, no_format)]
        fn $name() {
            fashare_3c_n2($own);
        }
    };
}
fashare_3c_n2_variant!(c07_fashare_3c_n2, 7);
fashare_3c_n2_variant!(c07_fashare_3c_n2__c04, 4);
fashare_3c_n2_variant!(c07_fashare_3c_n2__c10, 10);


/// C04 - aShare consistency round, step 3d (n = 2, own index 0, 2 check objects): Ok implies
/// that for every check object the XOR of the MACs decommitted for the peer equals the value
/// the peer opened (AShareWrongMAC otherwise) and that one of its two commitments opened;
/// BLAKE3 opening verdicts are arbitrary (environment).
#[kani::proof]
#[kani::unwind(20)]
#[kani::stub(std::fmt::format, no_format)]
fn c04_fashare_3d_n2() {
    let own: [[u8; 17]; 2] = kani::any();
    let peer: [[u8; 17]; 2] = kani::any();
    let opened: [u128; 2] = kani::any();
    let dm_k = vec![vec![dm17(own[0]), dm17(own[1])], vec![dm17(peer[0]), dm17(peer[1])]];
    let di_bi_k = vec![vec![], vec![opened[0], opened[1]]];
    let z = Commitment([0u8; 32]);
    let comm = vec![vec![(z, z, z), (z, z, z)], vec![(z, z, z), (z, z, z)]];
    open_log_reset();
    let r = seg_fashare_3d(0, 2, dm_k, di_bi_k, comm);
    let ok = r.is_ok();
    kani::cover!(ok, "fashare3d_ok_reachable");
    kani::cover!(!ok, "fashare3d_err_reachable");
    if ok {
        assert!(mac_of(&own[0]) == opened[0] && mac_of(&own[1]) == opened[1], "C04:fashare3d:Ok-implies-xor-of-MACs==opened-key-sum");
        // per check object: c0 is tried first, c1 only if c0 did not open; the last verdict
        // asked for each object must be `true`
        let n = unsafe { ENV_OPEN_N };
        assert!(n >= 2 && n <= 4 && unsafe { ENV_OPEN_LOG[n - 1] }, "C04:fashare3d:Ok-implies-one-of-the-two-commitments-opened");
    }
    std::mem::forget(r);
}

/// C04 - verified broadcast (Goldwasser-Lindell echo), n = 3, own index 0: Ok implies that every
/// other party echoed, for the third party, exactly the hash this party computed from what it
/// received itself (InconsistentBroadcast / EmptyVector otherwise).
fn bcast_verify_tail_n3(prop_own: u8) {
    let h: [u128; 3] = [0, kani::any(), kani::any()];
    let o = |b: bool| -> Option<u128> { if b { Some(kani::any()) } else { None } };
    // received_vecs[k][j]: what party k says it received from party j
    let r1 = [o(kani::any()), o(kani::any()), o(kani::any())];
    let r2 = [o(kani::any()), o(kani::any()), o(kani::any())];
    let r = seg_bcast_verify_tail(0, 3, vec![vec![], vec![r1[0], r1[1], r1[2]], vec![r2[0], r2[1], r2[2]]], vec![h[0], h[1], h[2]]);
    let ok = r.is_ok();
    kani::cover!(ok, "bcast_ok_reachable");
    kani::cover!(!ok, "bcast_err_reachable");
    if ok {
        pa!(prop_own, 4, r1[2] == Some(h[2]), "C04:broadcast:party-1-echo-of-party-2==own-view");
        pa!(prop_own, 4, r2[1] == Some(h[1]), "C04:broadcast:party-2-echo-of-party-1==own-view");
        pa!(prop_own, 3, r1[2] == Some(h[2]) && r2[1] == Some(h[1]), "C03:broadcast:a-value-announced-differently-to-different-parties-is-detected");
    }
    std::mem::forget(r);
}

macro_rules! bcast_verify_variant {
    ($name:ident, $own:expr) => {
        #[kani::proof]
        #[kani::unwind(6)]
        #[kani::stub(std::fmt::format, no_format)]
        fn $name() {
            bcast_verify_tail_n3($own);
        }
    };
}
bcast_verify_variant!(c04_bcast_verify_tail_n3, 4);
bcast_verify_variant!(c04_bcast_verify_tail_n3__c03, 3);

/// C04 - leaky AND, final check (n = 2, own index 0, two triples): Ok implies the XOR of all
/// parties' H values is zero for every triple (LaANDXorNotZero otherwise) and every opening
/// was accepted by the (arbitrary-verdict) commitment check.
#[kani::proof]
#[kani::unwind(6)]
#[kani::stub(std::fmt::format, no_format)]
fn c04_flaand_tail_n2() {
    let own: [u128; 2] = [kani::any(), kani::any()];
    let peer: [u128; 2] = [kani::any(), kani::any()];
    let z = Commitment([0u8; 32]);
    let zs = || Share(kani::any(), Auth(vec![(Mac(0), Key(0)), (Mac(0), Key(0))]));
    open_log_reset();
    let r = seg_flaand_tail(0, 2, 2, vec![own[0], own[1]], vec![vec![], vec![peer[0], peer[1]]], vec![vec![], vec![z, z]], vec![zs(), zs()]);
    let ok = r.is_ok();
    kani::cover!(ok, "flaand_ok_reachable");
    kani::cover!(!ok, "flaand_err_reachable");
    if ok {
        assert!(own[0] ^ peer[0] == 0 && own[1] ^ peer[1] == 0, "C04:flaand:Ok-implies-xor-of-all-H==0");
        assert!(open_log_all_true() && unsafe { ENV_OPEN_N } == 2, "C04:flaand:Ok-implies-every-H-opened-its-commitment");
    }
    std::mem::forget(r);
}

/// C04 - aBit check (n = 2, own index 0; two of the 3*rho random combinations, three
/// authenticated bits): Ok implies that for every combination j the peer's opened (x_j, MAC)
/// satisfies MAC == (XOR of own keys selected by the coefficient bits) ^ x_j * delta.
#[kani::proof]
#[kani::unwind(6)]
#[kani::stub(std::fmt::format, no_format)]
fn c04_fabitn_check_n2() {
    let delta: u128 = kani::any();
    let keys: [u128; 3] = [kani::any(), kani::any(), kani::any()];
    let rb: [u128; 2] = [kani::any(), kani::any()];
    let xj: [bool; 2] = [kani::any(), kani::any()];
    let xm: [u128; 2] = [kani::any(), kani::any()];
    let r = vec![vec![Block::from(rb[0])], vec![Block::from(rb[1])]];
    let res = seg_fabitn_check(0, 2, Delta(delta), r, vec![vec![], vec![(xj[0], xm[0]), (xj[1], xm[1])]], vec![vec![], vec![keys[0], keys[1], keys[2]]]);
    let ok = res.is_ok();
    kani::cover!(ok, "fabitn_ok_reachable");
    kani::cover!(!ok, "fabitn_err_reachable");
    if ok {
        let mut j = 0;
        while j < 2 {
            let mut k = 0u128;
            let mut t = 0;
            while t < 3 {
                if (rb[j] >> t) & 1 == 1 {
                    k ^= keys[t];
                }
                t += 1;
            }
            assert!(xm[j] == k ^ (if xj[j] { delta } else { 0 }), "C04:fabitn:opened-MAC==selected-key-xor^x*delta");
            j += 1;
        }
    }
    std::mem::forget(res);
}

/// C02/C04 (n = 3) - d-value opening with two peers, one bucket of two triples (one d-value):
/// Ok(d) implies both peers opened exactly one d-bit with one MAC that verifies; d == own^p1^p2.
#[kani::proof]
#[kani::unwind(6)]
#[kani::stub(std::fmt::format, no_format)]
fn c04_check_dvalue_tail_n3_b2() {
    let delta = Delta(kani::any());
    let s3 = |b: bool, k1: u128, k2: u128| Share(b, Auth(vec![(Mac(0), Key(0)), (Mac(kani::any()), Key(k1)), (Mac(kani::any()), Key(k2))]));
    let yb: [bool; 2] = [kani::any(), kani::any()];
    let yk1: [u128; 2] = [kani::any(), kani::any()];
    let yk2: [u128; 2] = [kani::any(), kani::any()];
    let ys = [s3(yb[0], yk1[0], yk2[0]), s3(yb[1], yk1[1], yk2[1])];
    let xs = [s3(kani::any(), 0, 0), s3(kani::any(), 0, 0)];
    let zs = [s3(kani::any(), 0, 0), s3(kani::any(), 0, 0)];
    let bucket: Bucket = vec![(&xs[0], &ys[0], &zs[0]), (&xs[1], &ys[1], &zs[1])];
    let buckets = [bucket];
    let own_d = yb[0] ^ yb[1];
    let mk_peer = || -> (Vec<bool>, Vec<Mac>, usize, usize, bool, u128) {
        let d: bool = kani::any();
        let m: u128 = kani::any();
        let dl: u8 = kani::any();
        let ml: u8 = kani::any();
        let dv = match dl { 0 => vec![], 1 => vec![d], _ => vec![d, kani::any()] };
        let mv = match ml { 0 => vec![], 1 => vec![Mac(m)], _ => vec![Mac(m), Mac(kani::any())] };
        let (a, b) = (dv.len(), mv.len());
        (dv, mv, a, b, d, m)
    };
    let (d1, m1, d1l, m1l, d1b, m1v) = mk_peer();
    let (d2, m2, d2l, m2l, d2b, m2v) = mk_peer();
    let r = seg_check_dvalue_tail(delta, 0, 3, &buckets, vec![vec![own_d]], 1, vec![vec![], vec![(d1, m1)], vec![(d2, m2)]]);
    let ok = r.is_ok();
    kani::cover!(ok, "dvalue_n3_ok_reachable");
    kani::cover!(!ok, "dvalue_n3_err_reachable");
    if let Ok(d) = &r {
        assert!(d1l == 1 && m1l == 1 && d2l == 1 && m2l == 1, "C02:dvalue-n3:wrong-length-opening-not-accepted");
        if d1l == 1 && m1l == 1 && d2l == 1 && m2l == 1 {
            assert!(m1v == yk1[0] ^ yk1[1] ^ (if d1b { delta.0 } else { 0 }), "C04:dvalue-n3:MAC-of-peer-1-verified");
            assert!(m2v == yk2[0] ^ yk2[1] ^ (if d2b { delta.0 } else { 0 }), "C04:dvalue-n3:MAC-of-peer-2-verified");
            assert!(d.len() == 1 && d[0].len() == 1 && d[0][0] == (own_d ^ d1b ^ d2b), "C10:dvalue-n3:d==xor-of-all-openings");
        }
    }
    std::mem::forget(r);
    std::mem::forget(buckets);
    std::mem::forget((xs, ys, zs));
}

/// C04 - coin tossing (shared_rng, n = 2, own index 0): Ok implies the peer's decommitment was
/// accepted by the commitment check, and the seed is own ^ peer contribution.
#[kani::proof]
#[kani::unwind(36)]
#[kani::stub(std::fmt::format, no_format)]
fn c04_shared_rng_open_n2() {
    let own: [u8; 32] = kani::any();
    let peer: [u8; 32] = kani::any();
    let z = Commitment([0u8; 32]);
    open_log_reset();
    let r = seg_shared_rng_open(0, 2, own, vec![vec![], peer.to_vec()], vec![vec![], vec![z]]);
    let ok = r.is_ok();
    kani::cover!(ok, "rng_open_ok_reachable");
    kani::cover!(!ok, "rng_open_err_reachable");
    if let Ok(seed) = &r {
        assert!(open_log_all_true() && unsafe { ENV_OPEN_N } == 1, "C04:coin-toss:Ok-implies-peer-decommitment-opened");
        let mut good = true;
        let mut b = 0;
        while b < 32 {
            good &= seed[b] == own[b] ^ peer[b];
            b += 1;
        }
        assert!(good, "C10:coin-toss:seed==xor-of-all-contributions");
    }
    std::mem::forget(r);
}

/// C10 - aBit result assembly (n = 3, own index 1, 2 returned bits out of 3 generated): share l
/// carries bit x[l] and, for every peer k, exactly (MAC, key) number l of the OT results with
/// k; the own slot is zero; the sacrificed objects are cut off.
#[kani::proof]
#[kani::unwind(6)]
#[kani::stub(std::fmt::format, no_format)]
fn c10_fabitn_result_n3() {
    let x: [bool; 3] = [kani::any(), kani::any(), kani::any()];
    let k0: [u128; 3] = [kani::any(), kani::any(), kani::any()];
    let k2: [u128; 3] = [kani::any(), kani::any(), kani::any()];
    let m0: [u128; 3] = [kani::any(), kani::any(), kani::any()];
    let m2: [u128; 3] = [kani::any(), kani::any(), kani::any()];
    let r = seg_fabitn_result(
        1,
        3,
        2,
        vec![x[0], x[1], x[2]],
        vec![vec![k0[0], k0[1], k0[2]], vec![], vec![k2[0], k2[1], k2[2]]],
        vec![vec![m0[0], m0[1], m0[2]], vec![], vec![m2[0], m2[1], m2[2]]],
    );
    let ok = r.is_ok();
    assert!(ok, "C10:fabitn:result-assembly-Ok");
    if let Ok(res) = &r {
        assert!(res.len() == 2, "C10:fabitn:returns-the-first-l-objects");
        let mut good = res.len() == 2;
        let mut l = 0;
        while l < 2 {
            if res.len() == 2 {
                let s = &res[l];
                good &= s.0 == x[l] && s.1 .0.len() == 3;
                if s.1 .0.len() == 3 {
                    good &= s.1 .0[0] == (Mac(m0[l]), Key(k0[l]));
                    good &= s.1 .0[1] == (Mac(0), Key(0));
                    good &= s.1 .0[2] == (Mac(m2[l]), Key(k2[l]));
                }
            }
            l += 1;
        }
        assert!(good, "C10:fabitn:share-l==(x[l], (mac_k[l], key_k[l]) for every peer k, own slot zero)");
    }
    kani::cover!(ok, "fabitn_result_reachable");
    std::mem::forget(r);
}

/// C02/C10 - aAND, after the d-value round: the number of d-value vectors must match the number
/// of buckets (InvalidLength otherwise); one triple per bucket.
#[kani::proof]
#[kani::unwind(6)]
#[kani::stub(std::fmt::format, no_format)]
fn c10_faand_combine_lengths() {
    let sh = || Share(kani::any(), Auth(vec![(Mac(0), Key(0)), (Mac(kani::any()), Key(kani::any()))]));
    let s = [sh(), sh(), sh(), sh(), sh(), sh()];
    let b0: Bucket = vec![(&s[0], &s[1], &s[2]), (&s[3], &s[4], &s[5])];
    let b1: Bucket = vec![(&s[3], &s[4], &s[5]), (&s[0], &s[1], &s[2])];
    let nd: u8 = kani::any();
    let d_values: Vec<Vec<bool>> = match nd {
        0 => vec![],
        1 => vec![vec![kani::any()]],
        2 => vec![vec![kani::any()], vec![kani::any()]],
        _ => vec![vec![kani::any()], vec![kani::any()], vec![kani::any()]],
    };
    let n_d = d_values.len();
    let r = seg_faand_combine(0, 2, vec![b0, b1], d_values);
    let ok = r.is_ok();
    kani::cover!(ok, "faand_combine_ok_reachable");
    kani::cover!(!ok, "faand_combine_err_reachable");
    if let Ok(t) = &r {
        assert!(n_d == 2, "C10:faand:one-d-value-vector-per-bucket-or-InvalidLength");
        assert!(t.len() == 2, "C10:faand:one-triple-per-bucket");
    }
    std::mem::forget(r);
    std::mem::forget(s);
}

fn env_commit(_v: &[u8]) -> Commitment {
    Commitment([0u8; 32])
}

/// C10/C04 - the aShare consistency round end to end for honest parties, n = 3 (rho lowered to
/// 2): every party builds its key sums d0/d1 and its MAC decommitment (step 3a, cut), party 0
/// derives the value it opens from everybody's claimed bits (3c, cut), and party 0's final check
/// (3d, cut) over ALL parties' decommitments and openings returns Ok - for all valid shares and
/// global keys. This pins the byte layout of the decommitment (bit, then the MACs for every
/// OTHER party in index order, big-endian) between producer and consumer, for every pair.
#[kani::proof]
#[kani::unwind(8)]
#[kani::stub(std::fmt::format, no_format)]
fn c10_fashare_round_honest_n3() {
    let delta: [u128; 3] = [kani::any(), kani::any(), kani::any()];
    // check objects r = 0, 1 ; bit[p][r] ; key[p][q][r] = p's key for q's bit
    let bit: [[bool; 2]; 3] = [[kani::any(), kani::any()], [kani::any(), kani::any()], [kani::any(), kani::any()]];
    let k2 = || -> [u128; 2] { [kani::any(), kani::any()] };
    let z = [0u128; 2];
    let key: [[[u128; 2]; 3]; 3] = [[z, k2(), k2()], [k2(), z, k2()], [k2(), k2(), z]];
    let mac = |p: usize, q: usize, r: usize| key[q][p][r] ^ (if bit[p][r] { delta[q] } else { 0 });
    let share = |p: usize, r: usize| -> Share {
        Share(
            bit[p][r],
            Auth(vec![
                (Mac(if p == 0 { 0 } else { mac(p, 0, r) }), Key(key[p][0][r])),
                (Mac(if p == 1 { 0 } else { mac(p, 1, r) }), Key(key[p][1][r])),
                (Mac(if p == 2 { 0 } else { mac(p, 2, r) }), Key(key[p][2][r])),
            ]),
        )
    };
    // l = 0: the two shares are exactly the check objects
    let xs0 = vec![share(0, 0), share(0, 1)];
    let xs1 = vec![share(1, 0), share(1, 1)];
    let xs2 = vec![share(2, 0), share(2, 1)];
    let a0 = seg_fashare_3a(0, 3, 0, Delta(delta[0]), &xs0);
    let a1 = seg_fashare_3a(1, 3, 0, Delta(delta[1]), &xs1);
    let a2 = seg_fashare_3a(2, 3, 0, Delta(delta[2]), &xs2);
    let ok_a = a0.is_ok() && a1.is_ok() && a2.is_ok();
    assert!(ok_a, "C10:fashare-round:step-3a-Ok");
    if let (Ok((d0_0, d1_0, dm0)), Ok((d0_1, d1_1, dm1)), Ok((d0_2, d1_2, dm2))) = (a0, a1, a2) {
        // what parties 1 and 2 open (honest step 3c at their side): d0 ^ (xor of the others' bits)*delta
        let b1 = [bit[0][0] ^ bit[2][0], bit[0][1] ^ bit[2][1]];
        let b2 = [bit[0][0] ^ bit[1][0], bit[0][1] ^ bit[1][1]];
        let open1 = vec![if b1[0] { d1_1[0] } else { d0_1[0] }, if b1[1] { d1_1[1] } else { d0_1[1] }];
        let open2 = vec![if b2[0] { d1_2[0] } else { d0_2[0] }, if b2[1] { d1_2[1] } else { d0_2[1] }];
        let c = seg_fashare_3c(0, 3, vec![dm0.clone(), dm1.clone(), dm2.clone()], d0_0, d1_0);
        assert!(c.is_ok(), "C10:fashare-round:step-3c-Ok-for-honest-decommitments");
        let zc = Commitment([0u8; 32]);
        let comm = vec![vec![(zc, zc, zc), (zc, zc, zc)], vec![(zc, zc, zc), (zc, zc, zc)], vec![(zc, zc, zc), (zc, zc, zc)]];
        open_log_reset();
        let d = seg_fashare_3d(0, 3, vec![dm0, dm1, dm2], vec![vec![], open1, open2], comm);
        // the MAC-sum comparison must hold; the (arbitrary) commitment verdicts may still reject
        let rejected_by_commitment = unsafe { ENV_OPEN_N >= 1 && !ENV_OPEN_LAST };
        assert!(d.is_ok() || rejected_by_commitment, "C10:fashare-round:honest-openings-pass-the-MAC-sum-check(layout-consistent)");
        kani::cover!(d.is_ok(), "fashare_round_ok_reachable");
        std::mem::forget((c, d));
    }
    std::mem::forget((xs0, xs1, xs2));
}

/// C04/C10 (n = 4) - Beaver opening with three peers, one triple: Ok implies every peer's d and e
/// MACs verify and the opened d, e are the XOR of ALL four contributions.
fn beaver_check_n4(prop_own: u8) {
    let delta = Delta(kani::any());
    let dk: [u128; 4] = [0, kani::any(), kani::any(), kani::any()];
    let ek: [u128; 4] = [0, kani::any(), kani::any(), kani::any()];
    let own_d: bool = kani::any();
    let own_e: bool = kani::any();
    let pd: [bool; 4] = [false, kani::any(), kani::any(), kani::any()];
    let pe: [bool; 4] = [false, kani::any(), kani::any(), kani::any()];
    let pdm: [u128; 4] = [0, kani::any(), kani::any(), kani::any()];
    let pem: [u128; 4] = [0, kani::any(), kani::any(), kani::any()];
    let sh = |b: bool, k: &[u128; 4]| Share(b, Auth(vec![(Mac(0), Key(0)), (Mac(kani::any()), Key(k[1])), (Mac(kani::any()), Key(k[2])), (Mac(kani::any()), Key(k[3]))]));
    let msg = |p: usize| vec![(pd[p], pe[p], Mac(pdm[p]), Mac(pem[p]))];
    let r = seg_beaver_check(delta, 0, 4, vec![(sh(own_d, &dk), sh(own_e, &ek))], vec![(own_d, own_e, Mac(0), Mac(0))], vec![vec![], msg(1), msg(2), msg(3)]);
    let ok = r.is_ok();
    kani::cover!(ok, "beaver_n4_ok_reachable");
    kani::cover!(!ok, "beaver_n4_err_reachable");
    if let Ok(v) = &r {
        let mut p = 1;
        while p < 4 {
            pa!(prop_own, 4, pdm[p] == dk[p] ^ (if pd[p] { delta.0 } else { 0 }) && pem[p] == ek[p] ^ (if pe[p] { delta.0 } else { 0 }), "C04:beaver-n4:MACs-of-d-and-e-verified-for-every-peer");
            p += 1;
        }
        pa!(prop_own, 10, v.len() == 1 && v[0].0 == (own_d ^ pd[1] ^ pd[2] ^ pd[3]) && v[0].1 == (own_e ^ pe[1] ^ pe[2] ^ pe[3]), "C10:beaver-n4:opened-d,e==xor-of-ALL-contributions");
    }
    std::mem::forget(r);
}

macro_rules! beaver_check_n4_variant {
    ($name:ident, $own:expr) => {
        #[kani::proof]
        #[kani::unwind(6)]
        #[kani::stub(std::fmt::format, no_format)]
        fn $name() {
            beaver_check_n4($own);
        }
    };
}
beaver_check_n4_variant!(c04_beaver_check_n4, 4);
beaver_check_n4_variant!(c04_beaver_check_n4__c10, 10);

static mut ENV_BITS: [bool; 6] = [false; 6];
static mut ENV_BITS_NEXT: usize = 0;

/// rand::random::<bool>() as environment: the k-th call returns the k-th of six arbitrary bits.
fn env_random_bit() -> bool {
    unsafe {
        let k = ENV_BITS_NEXT;
        ENV_BITS_NEXT += 1;
        if k < 6 { ENV_BITS[k] } else { kani::any() }
    }
}

/// C06 - aBit step 1: the party's own mask-share bits are independent draws - bit k of the local
/// string is the k-th random() result, l + 3*rho of them (rho lowered to 1 inside the cut).
#[kani::proof]
#[kani::unwind(8)]
#[kani::stub(std::fmt::format, no_format)]
fn c06_fabitn_own_bits_are_fresh_draws() {
    let b: [bool; 6] = [kani::any(), kani::any(), kani::any(), kani::any(), kani::any(), kani::any()];
    unsafe {
        ENV_BITS = b;
        ENV_BITS_NEXT = 0;
    }
    let r = seg_fabitn_head(2);
    let ok = r.is_ok();
    assert!(ok, "C06:abit:step-1-Ok");
    if let Ok(x) = &r {
        assert!(x.len() == 5, "C06:abit:l+3rho-local-bits");
        if x.len() == 5 {
            assert!(x[0] == b[0] && x[1] == b[1] && x[2] == b[2] && x[3] == b[3] && x[4] == b[4], "C06:abit:local-bit-k-is-the-k-th-random-draw");
        }
    }
    kani::cover!(ok, "fabitn_head_reachable");
    std::mem::forget(r);
}

// =============================================================================================
// C04 - commit-before-reveal of the pairwise coin toss. The WHOLE body of `shared_rng_pairwise`
// is cut (both awaited rounds included). A round becomes a call on this environment that
// records "sent" (with a time stamp and the payload) when it is CALLED and returns a future
// that records "received" when it is POLLED (`.await` -> one poll): code that joins the two
// rounds has sent its opening before it has received the commitments, sequential code has not.
// All recording goes through `Cell`s so that two round futures may be alive at the same time.
use std::cell::Cell;

#[derive(Clone)]
pub(crate) struct EnvSeed(pub [u8; 32]);
impl EnvSeed {
    fn from_seed(s: [u8; 32]) -> Self {
        EnvSeed(s)
    }
}

pub(crate) struct RoundFut<'a, T> {
    clock: &'a Cell<usize>,
    t_recv: &'a Cell<usize>,
    out: Option<Result<T, Error>>,
}
impl<'a, T: Unpin> std::future::Future for RoundFut<'a, T> {
    type Output = Result<T, Error>;
    fn poll(self: std::pin::Pin<&mut Self>, _cx: &mut std::task::Context<'_>) -> std::task::Poll<Self::Output> {
        let this = self.get_mut();
        this.clock.set(this.clock.get() + 1);
        this.t_recv.set(this.clock.get());
        match this.out.take() {
            Some(v) => std::task::Poll::Ready(v),
            None => panic!("harness: round future polled twice"),
        }
    }
}
pub(crate) trait EnvNow {
    type Out;
    fn env_now(self) -> Self::Out;
}
impl<F: std::future::Future> EnvNow for F {
    type Out = F::Output;
    fn env_now(self) -> F::Output {
        let mut f = std::pin::pin!(self);
        let mut cx = std::task::Context::from_waker(std::task::Waker::noop());
        match f.as_mut().poll(&mut cx) {
            std::task::Poll::Ready(v) => v,
            std::task::Poll::Pending => panic!("environment future is not ready"),
        }
    }
}

pub(crate) struct CoinEnv {
    draws: [[u8; 32]; 3],
    n_draws: Cell<usize>,
    clock: Cell<usize>,
    committed: Cell<[[u8; 34]; 3]>,
    committed_len_ok: Cell<bool>,
    n_commit: Cell<usize>,
    comm_round_ok: bool,
    t_comm_sent: Cell<usize>,
    t_comm_recv: Cell<usize>,
    n_comm_round: Cell<usize>,
    comm_tag_to: Cell<[u8; 3]>,
    ver_round_ok: bool,
    t_ver_sent: Cell<usize>,
    t_ver_recv: Cell<usize>,
    n_ver_round: Cell<usize>,
    revealed: Cell<[[u8; 32]; 3]>,
    revealed_len_ok: Cell<bool>,
    peer_comm: [[u8; 32]; 3],
    peer_bufs: [[u8; 32]; 3],
    verdicts: [bool; 3],
    n_open: Cell<usize>,
    open_len_ok: Cell<bool>,
    open_comm_ok: Cell<bool>,
    open_args_ok: Cell<bool>,
    t_first_open: Cell<usize>,
}

impl CoinEnv {
    fn new() -> Self {
        CoinEnv {
            draws: [kani::any(), kani::any(), kani::any()],
            n_draws: Cell::new(0),
            clock: Cell::new(0),
            committed: Cell::new([[0; 34]; 3]),
            committed_len_ok: Cell::new(true),
            n_commit: Cell::new(0),
            comm_round_ok: kani::any(),
            t_comm_sent: Cell::new(0),
            t_comm_recv: Cell::new(0),
            n_comm_round: Cell::new(0),
            comm_tag_to: Cell::new([0; 3]),
            ver_round_ok: kani::any(),
            t_ver_sent: Cell::new(0),
            t_ver_recv: Cell::new(0),
            n_ver_round: Cell::new(0),
            revealed: Cell::new([[0; 32]; 3]),
            revealed_len_ok: Cell::new(true),
            peer_comm: [kani::any(), kani::any(), kani::any()],
            peer_bufs: [kani::any(), kani::any(), kani::any()],
            verdicts: [kani::any(), kani::any(), kani::any()],
            n_open: Cell::new(0),
            open_len_ok: Cell::new(true),
            open_comm_ok: Cell::new(true),
            open_args_ok: Cell::new(true),
            t_first_open: Cell::new(0),
        }
    }
    fn tick(&self) -> usize {
        self.clock.set(self.clock.get() + 1);
        self.clock.get()
    }
    fn draw(&self) -> [u8; 32] {
        let k = self.n_draws.get();
        self.n_draws.set(k + 1);
        if k < 3 { self.draws[k] } else { [0; 32] }
    }
    /// BLAKE3 commitment: the output is a tag naming the call, the input is remembered
    fn commit(&self, v: &[u8]) -> Commitment {
        let k = self.n_commit.get();
        self.n_commit.set(k + 1);
        if v.len() == 34 && k < 3 {
            let mut all = self.committed.get();
            let mut b = 0;
            while b < 34 {
                all[k][b] = v[b];
                b += 1;
            }
            self.committed.set(all);
        } else {
            self.committed_len_ok.set(false);
        }
        Commitment([(k + 1) as u8; 32])
    }
    fn open(&self, c: &Commitment, v: &[u8]) -> bool {
        self.n_open.set(self.n_open.get() + 1);
        if self.t_first_open.get() == 0 {
            let t = self.tick();
            self.t_first_open.set(t);
        }
        // which peer is this about: the id bytes appended by the code
        if v.len() != 34 {
            self.open_len_ok.set(false);
            return false;
        }
        let who = ((v[32] as usize) << 8) | v[33] as usize;
        if who >= 3 {
            self.open_len_ok.set(false);
            return false;
        }
        let mut csame = true;
        let mut same = true;
        let mut b = 0;
        while b < 32 {
            csame &= c.0[b] == self.peer_comm[who][b];
            same &= v[b] == self.peer_bufs[who][b];
            b += 1;
        }
        if !csame {
            self.open_comm_ok.set(false);
        }
        if !same {
            self.open_args_ok.set(false);
        }
        self.verdicts[who]
    }
    fn peer_commitments(&self, i: usize, n: usize) -> Vec<Vec<Commitment>> {
        if n == 2 && i == 0 {
            vec![vec![], vec![Commitment(self.peer_comm[1])]]
        } else if n == 3 && i == 1 {
            vec![vec![Commitment(self.peer_comm[0])], vec![], vec![Commitment(self.peer_comm[2])]]
        } else {
            panic!("harness: unsupported (i, n)")
        }
    }
    fn peer_reveals(&self, i: usize, n: usize) -> Vec<Vec<u8>> {
        if n == 2 && i == 0 {
            vec![vec![], self.peer_bufs[1].to_vec()]
        } else if n == 3 && i == 1 {
            vec![self.peer_bufs[0].to_vec(), vec![], self.peer_bufs[2].to_vec()]
        } else {
            panic!("harness: unsupported (i, n)")
        }
    }
    fn scatter_comm(&self, i: usize, msgs: &[Vec<Commitment>]) -> RoundFut<'_, Vec<Vec<Commitment>>> {
        let t = self.tick();
        self.t_comm_sent.set(t);
        self.n_comm_round.set(self.n_comm_round.get() + 1);
        let n = msgs.len();
        let mut tags = self.comm_tag_to.get();
        let mut k = 0;
        while k < 3 {
            if k < n && k != i {
                tags[k] = if msgs[k].len() == 1 { msgs[k][0].0[0] } else { 0 };
            }
            k += 1;
        }
        self.comm_tag_to.set(tags);
        let out = if self.comm_round_ok { Ok(self.peer_commitments(i, n)) } else { Err(Error::EmptyMsg) };
        RoundFut { clock: &self.clock, t_recv: &self.t_comm_recv, out: Some(out) }
    }
    fn scatter_ver(&self, i: usize, msgs: &[Vec<u8>]) -> RoundFut<'_, Vec<Vec<u8>>> {
        let t = self.tick();
        self.t_ver_sent.set(t);
        self.n_ver_round.set(self.n_ver_round.get() + 1);
        let n = msgs.len();
        let mut rev = self.revealed.get();
        let mut k = 0;
        while k < 3 {
            if k < n && k != i {
                if msgs[k].len() == 32 {
                    let mut b = 0;
                    while b < 32 {
                        rev[k][b] = msgs[k][b];
                        b += 1;
                    }
                } else {
                    self.revealed_len_ok.set(false);
                }
            }
            k += 1;
        }
        self.revealed.set(rev);
        let out = if self.ver_round_ok { Ok(self.peer_reveals(i, n)) } else { Err(Error::EmptyMsg) };
        RoundFut { clock: &self.clock, t_recv: &self.t_ver_recv, out: Some(out) }
    }
    /// what was revealed to peer k is what the commitment sent to peer k was computed from,
    /// with the own id appended
    fn reveal_matches_commitment(&self, i: usize, k: usize) -> bool {
        let tag = self.comm_tag_to.get()[k] as usize;
        if tag == 0 || tag > 3 || tag > self.n_commit.get() {
            return false;
        }
        let c = self.committed.get()[tag - 1];
        let r = self.revealed.get()[k];
        let mut same = c[32] == ((i >> 8) as u8) && c[33] == (i as u8);
        let mut b = 0;
        while b < 32 {
            same &= c[b] == r[b];
            b += 1;
        }
        same
    }
}

fn coin_order_asserts(env: &CoinEnv, ok: bool, i: usize, n: usize) {
    // (1) nothing is revealed unless the commitment round has completed successfully before
    if env.t_ver_sent.get() != 0 {
        assert!(env.comm_round_ok && env.n_comm_round.get() == 1 && env.t_comm_recv.get() != 0 && env.t_comm_recv.get() < env.t_ver_sent.get(),
            "C04:coin-toss:reveal-only-after-every-commitment-was-received");
        assert!(env.n_ver_round.get() == 1 && env.revealed_len_ok.get() && env.committed_len_ok.get(), "C04:coin-toss:one-reveal-round-of-32-byte-seeds");
        let mut k = 0;
        while k < n {
            if k != i {
                assert!(env.reveal_matches_commitment(i, k), "C04:coin-toss:revealed-seed-is-the-committed-one(with own id)");
            }
            k += 1;
        }
    }
    // (2) a failed commitment round ends the toss
    if !env.comm_round_ok {
        assert!(!ok && env.t_ver_sent.get() == 0 && env.n_open.get() == 0, "C04:coin-toss:failed-commitment-round=>Err-and-no-reveal");
    }
    // (3) decommitments are looked at only after the reveal round has completed
    if env.n_open.get() != 0 {
        assert!(env.ver_round_ok && env.t_ver_recv.get() != 0 && env.t_ver_recv.get() < env.t_first_open.get(), "C04:coin-toss:openings-checked-after-the-reveal-round");
    }
    if ok {
        assert!(env.comm_round_ok && env.ver_round_ok, "C04:coin-toss:Ok=>both-rounds-succeeded");
        assert!(env.n_open.get() == n - 1, "C04:coin-toss:Ok=>one-decommitment-check-per-peer");
        assert!(env.open_len_ok.get(), "C04:coin-toss:Ok=>decommitment-checks-on-34-byte-values-with-a-party-id");
        assert!(env.open_comm_ok.get(), "C04:coin-toss:Ok=>every-peer-decommitment-checked-against-that-peer's-commitment");
        assert!(env.open_args_ok.get(), "C04:coin-toss:Ok=>every-peer-decommitment-check-uses-that-peer's-received-seed");
        let mut k = 0;
        while k < n {
            if k != i {
                assert!(env.verdicts[k], "C04:coin-toss:Ok=>every-peer-decommitment-opened");
            }
            k += 1;
        }
    }
}

/// C04 - pairwise coin toss (seeds of the OT sessions), whole body, n = 2, own index 0.
#[kani::proof]
#[kani::unwind(36)]
#[kani::stub(std::fmt::format, no_format)]
fn c04_shared_rng_pairwise_commit_before_reveal_n2() {
    let env = CoinEnv::new();
    let r = seg_shared_rng_pairwise_order(&env, 0, 2);
    let ok = r.is_ok();
    kani::cover!(ok, "coin_ok_reachable");
    kani::cover!(!ok && env.t_ver_sent.get() == 0, "coin_err_before_reveal_reachable");
    kani::cover!(!ok && env.t_ver_sent.get() != 0, "coin_err_after_reveal_reachable");
    coin_order_asserts(&env, ok, 0, 2);
    if let Ok(t) = &r {
        let mut good = t.len() == 2 && t[0].len() == 2;
        if good {
            if let Some(s) = &t[0][1] {
                let rev = env.revealed.get();
                let mut b = 0;
                while b < 32 {
                    // the pair seed is what was revealed to peer 1 xor what peer 1 revealed
                    good &= s.0[b] == rev[1][b] ^ env.peer_bufs[1][b];
                    b += 1;
                }
            } else {
                good = false;
            }
        }
        assert!(good, "C04:coin-toss:pair-seed==own-revealed^peer-contribution");
    }
    std::mem::forget(r);
}

/// C04 - pairwise coin toss, whole body, n = 3, own index 1: a separate commitment per peer,
/// each revealed only to that peer and only after the commitment round.
#[kani::proof]
#[kani::unwind(36)]
#[kani::stub(std::fmt::format, no_format)]
fn c04_shared_rng_pairwise_commit_before_reveal_n3() {
    let env = CoinEnv::new();
    let r = seg_shared_rng_pairwise_order(&env, 1, 3);
    let ok = r.is_ok();
    kani::cover!(ok, "coin_ok_reachable");
    coin_order_asserts(&env, ok, 1, 3);
    std::mem::forget(r);
}
