// Kani harnesses appended (as child module `__verif`) to src/transpose.rs.
#![allow(unused_imports, dead_code, clippy::all)]
use super::*;

include!("/verif/harness/common.rs");

/// Intel SDM model of _mm_sll_epi64 (reached through wide's `i64x2 << n`; Kani has no
/// model of the LLVM intrinsic): both lanes shifted left by the low 64 bits of `count`,
/// zero if that is > 63.
#[cfg(target_arch = "x86_64")]
fn model_sll_epi64(a: std::arch::x86_64::__m128i, count: std::arch::x86_64::__m128i) -> std::arch::x86_64::__m128i {
    let a: [u64; 2] = unsafe { std::mem::transmute(a) };
    let c: [u64; 2] = unsafe { std::mem::transmute(count) };
    let r = if c[0] > 63 { [0u64, 0u64] } else { [a[0] << c[0], a[1] << c[0]] };
    unsafe { std::mem::transmute(r) }
}

fn bit(m: &[u8], r: usize, c: usize, cols: usize) -> bool {
    (m[(r * cols + c) / 8] >> ((r * cols + c) % 8)) & 1 == 1
}

macro_rules! portable_transpose {
    ($name:ident, $rows:expr, $cols:expr, $unw:expr) => {
        #[kani::proof]
        #[kani::unwind($unw)]
        #[kani::stub(std::arch::x86_64::_mm_sll_epi64, model_sll_epi64)]
        #[kani::stub(std::fmt::format, no_format)]
        fn $name() {
            const R: usize = $rows;
            const C: usize = $cols;
            const N: usize = R * C / 8;
            let input: [u8; N] = kani::any();
            let mut output = [0u8; N];
            portable::transpose_bitmatrix(&input, &mut output, R);
            // output is C x R; output[c][r] == input[r][c] -- compare byte-wise over concrete indices
            let mut ok = true;
            let mut c = 0;
            while c < C {
                let mut rb = 0;
                while rb < R / 8 {
                    let mut exp = 0u8;
                    let mut k = 0;
                    while k < 8 {
                        let r = rb * 8 + k;
                        exp |= (((input[(r * C + c) / 8] >> ((r * C + c) % 8)) & 1) as u8) << k;
                        k += 1;
                    }
                    ok &= output[(c * R) / 8 + rb] == exp;
                    rb += 1;
                }
                c += 1;
            }
            assert!(ok, "C20:portable-transpose:out[c][r]==in[r][c]");
            kani::cover!(output[N - 1] == 0xff, "transpose_last_byte_reachable");
        }
    };
}
portable_transpose!(c20_portable_transpose_16x16, 16, 16, 34);
portable_transpose!(c20_portable_transpose_16x24, 16, 24, 50);
portable_transpose!(c20_portable_transpose_32x16, 32, 16, 66);
