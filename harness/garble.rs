// Kani harnesses appended (as child module `__verif`) to src/mpc/garble.rs.
#![allow(unused_imports, dead_code, clippy::all)]
use super::*;

include!("/verif/harness/common.rs");

/// AEAD inputs are fixed-size and injective in (label_x, label_y, w as u64, row): two garbling
/// keys give the same (key, nonce) only if all four components agree (w compared as u64).
#[kani::proof]
#[kani::unwind(34)]
fn c09_key_and_nonce_injective() {
    let a = GarblingKey::new(Label(kani::any()), Label(kani::any()), kani::any(), kani::any());
    let b = GarblingKey::new(Label(kani::any()), Label(kani::any()), kani::any(), kani::any());
    let (ka, na) = key_and_nonce(&a);
    let (kb, nb) = key_and_nonce(&b);
    let mut same = true;
    let mut i = 0;
    while i < 32 {
        same &= ka[i] == kb[i];
        i += 1;
    }
    let mut i = 0;
    while i < 12 {
        same &= na[i] == nb[i];
        i += 1;
    }
    if same {
        assert!(a.label_x.0 == b.label_x.0 && a.label_y.0 == b.label_y.0, "C09:key_and_nonce:key-determines-both-labels");
        assert!(a.w as u64 == b.w as u64 && a.row == b.row, "C09:key_and_nonce:nonce-determines-gate-index-and-row");
    }
    // layout: labels big-endian in the key, gate index big-endian in nonce[..8], row in nonce[8]
    assert!(ka[0] == (a.label_x.0 >> 120) as u8 && ka[16] == (a.label_y.0 >> 120) as u8, "C09:key_and_nonce:key==label_x||label_y(be)");
    assert!(na[7] == a.w as u8 && na[8] == a.row && na[9] == 0 && na[10] == 0 && na[11] == 0, "C09:key_and_nonce:nonce==w(be)||row||0");
    kani::cover!(same, "same_key_nonce_reachable");
    kani::cover!(!same, "different_key_nonce_reachable");
}

include!("/verif/harness/segs_garble.rs");

/// C09 - fixed-size AEAD rows: the plaintext handed to ChaCha20-Poly1305 by encrypt() (the
/// statements between key derivation and the AEAD call and the plaintext argument expression,
/// cut from the source) has the same length for any two rows of one shape and equals
/// 1 + 8 + 16 n + 16; the ciphertext is that plus the 16-byte tag (AEAD definition).
#[kani::proof]
#[kani::unwind(20)]
#[kani::stub(std::fmt::format, no_format)]
fn c09_encrypt_plaintext_len_value_independent() {
    let a = seg_encrypt_plaintext_len((kani::any(), vec![Mac(kani::any()), Mac(kani::any())], Label(kani::any())));
    let b = seg_encrypt_plaintext_len((kani::any(), vec![Mac(kani::any()), Mac(kani::any())], Label(kani::any())));
    let la = match &a { Ok(l) => Some(*l), Err(_) => None };
    let lb = match &b { Ok(l) => Some(*l), Err(_) => None };
    std::mem::forget((a, b));
    assert!(la.is_some() && la == lb, "C09:garbled-row:plaintext-length-independent-of-values");
    assert!(la == Some(1 + 8 + 32 + 16), "C09:garbled-row:plaintext-length==1+8+16n+16");
    kani::cover!(la.is_some(), "encrypt_plaintext_reachable");
}
