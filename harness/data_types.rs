// Kani harnesses appended (as child module `__verif`) to src/mpc/data_types.rs.
#![allow(unused_imports, dead_code, clippy::all)]
use super::*;

include!("/verif/harness/common.rs");

fn mk(m: u128, k: u128) -> (Mac, Key) {
    (Mac(m), Key(k))
}

/// n parties, party `i`'s view: bit + for each j: (mac_i[j], key_i[j]).
/// Relation R(i,j): mac_i[j] == key_j[i] ^ (bit_i & delta_j).
macro_rules! xor_preserves {
    ($name:ident, $n:expr, [$($idx:expr),*]) => {
        #[kani::proof]
        #[kani::unwind(6)]
        fn $name() {
            const N: usize = $n;
            // two parties' views of two authenticated bits a, b: party I holds (bit, mac), party J holds key
            let delta_j: u128 = kani::any();
            let bit_a: bool = kani::any();
            let bit_b: bool = kani::any();
            // party I's Auth vectors (entries for every peer), symbolic
            let a_i = Auth(vec![$( { let _ = $idx; mk(kani::any(), kani::any()) } ),*]);
            let b_i = Auth(vec![$( { let _ = $idx; mk(kani::any(), kani::any()) } ),*]);
            // party J's Auth vectors
            let a_j = Auth(vec![$( { let _ = $idx; mk(kani::any(), kani::any()) } ),*]);
            let b_j = Auth(vec![$( { let _ = $idx; mk(kani::any(), kani::any()) } ),*]);
            let i: usize = kani::any();
            let j: usize = kani::any();
            kani::assume(i < N && j < N && i != j);
            // pre: relation holds for a and b between I (holder) and J (verifier)
            kani::assume(a_i.0[j].0 .0 == a_j.0[i].1 .0 ^ (if bit_a { delta_j } else { 0 }));
            kani::assume(b_i.0[j].0 .0 == b_j.0[i].1 .0 ^ (if bit_b { delta_j } else { 0 }));
            let sa = Share(bit_a, a_i);
            let sb = Share(bit_b, b_i);
            let ta = Share(kani::any(), a_j);
            let tb = Share(kani::any(), b_j);
            let si = &sa ^ &sb;
            let sj = &ta ^ &tb;
            assert!(si.0 == (bit_a ^ bit_b), "C10:share-xor:bit");
            assert!(si.1 .0.len() == N && sj.1 .0.len() == N, "C10:share-xor:length-preserved");
            let lhs = si.1 .0[j].0 .0;
            let rhs = sj.1 .0[i].1 .0 ^ (if si.0 { delta_j } else { 0 });
            assert!(lhs == rhs, "C10:share-xor:mac==key^bit*delta");
            kani::cover!(si.0 && delta_j != 0, "xor_nontrivial_reachable");
            std::mem::forget((sa, sb, ta, tb, si, sj));
        }
    };
}
xor_preserves!(c10_share_xor_n2, 2, [0, 1]);
xor_preserves!(c10_share_xor_n3, 3, [0, 1, 2]);
xor_preserves!(c10_share_xor_n4, 4, [0, 1, 2, 3]);

/// Auth::xor_key(i, d) changes exactly key i by d; macs untouched; xor_keys is the XOR of all
/// keys; macs() returns the macs in order. n = 3, all values symbolic.
#[kani::proof]
#[kani::unwind(6)]
fn c10_auth_helpers_n3() {
    let m: [u128; 3] = kani::any();
    let k: [u128; 3] = kani::any();
    let a = Auth(vec![mk(m[0], k[0]), mk(m[1], k[1]), mk(m[2], k[2])]);
    let d: u128 = kani::any();
    let i: usize = kani::any();
    kani::assume(i <= 3); // i == 3: no such entry -> unchanged
    assert!(a.xor_keys().0 == k[0] ^ k[1] ^ k[2], "C10:auth:xor_keys==xor-of-keys");
    let macs = a.macs();
    assert!(macs.len() == 3 && macs[0].0 == m[0] && macs[1].0 == m[1] && macs[2].0 == m[2], "C10:auth:macs-in-order");
    let b = a.clone().xor_key(i, Delta(d));
    let mut ok = b.0.len() == 3;
    let mut idx = 0;
    while idx < 3 {
        let exp_k = if idx == i { k[idx] ^ d } else { k[idx] };
        ok &= b.0[idx].0 .0 == m[idx] && b.0[idx].1 .0 == exp_k;
        idx += 1;
    }
    assert!(ok, "C10:auth:xor_key-changes-exactly-key-i");
    kani::cover!(i == 1 && d != 0, "xor_key_nontrivial_reachable");
    std::mem::forget((a, b, macs));
}

/// The typed XOR / AND operators the protocol's MAC checks are written with.
#[kani::proof]
fn c10_typed_ops() {
    let m: u128 = kani::any();
    let k: u128 = kani::any();
    let d: u128 = kani::any();
    let l: u128 = kani::any();
    let b: bool = kani::any();
    assert!((b & Delta(d)).0 == if b { d } else { 0 }, "C10:ops:bool&Delta");
    assert!((Mac(m) ^ Delta(d)).0 == m ^ d, "C10:ops:Mac^Delta");
    assert!((Key(k) ^ Delta(d)).0 == k ^ d, "C10:ops:Key^Delta");
    assert!((Mac(m) ^ Mac(k)).0 == m ^ k, "C10:ops:Mac^Mac");
    assert!((Key(m) ^ Key(k)).0 == m ^ k, "C10:ops:Key^Key");
    assert!((Label(l) ^ Label(k)).0 == l ^ k, "C10:ops:Label^Label");
    assert!((Label(l) ^ Delta(d)).0 == l ^ d, "C10:ops:Label^Delta");
    assert!((Label(l) ^ Mac(m)).0 == l ^ m, "C10:ops:Label^Mac");
    assert!((Label(l) ^ Key(k)).0 == l ^ k, "C10:ops:Label^Key");
    // the MAC check as written in input_processing/output/evaluate: mac == key ^ (bit & delta)
    let mac = Mac(m);
    let key = Key(k);
    let chk = mac != key ^ (b & Delta(d));
    assert!(chk == (m != (k ^ if b { d } else { 0 })), "C10:ops:mac-check-expression");
    kani::cover!(!chk && b, "mac_check_passes_reachable");
}
