// Kani harnesses appended (as child module `__verif`) to src/crypto/aes_hash.rs.
#![allow(unused_imports, dead_code, clippy::all)]
use super::*;

include!("/verif/harness/common.rs");

/// pi as an arbitrary function on the points it is evaluated at: PI(P[k]) = R[k] (first match
/// wins, so equal points get equal images), anything else unconstrained.
static mut ENV_PI_P: [u128; 2] = [0; 2];
static mut ENV_PI_R: [u128; 2] = [0; 2];

fn env_pi(b: &mut aes::Block) {
    let v = u128::from(Block::from(*b));
    let r = unsafe {
        if v == ENV_PI_P[0] {
            ENV_PI_R[0]
        } else if v == ENV_PI_P[1] {
            ENV_PI_R[1]
        } else {
            any_u128()
        }
    };
    *b = Block::from(r).into();
}

include!("/verif/harness/segs_aes_hash.rs");

#[kani::proof]
#[kani::unwind(18)]
fn c20_cr_hash_structure() {
    let x: u128 = kani::any();
    let r: u128 = kani::any();
    unsafe {
        ENV_PI_P = [x, x];
        ENV_PI_R = [r, r];
    }
    let h = seg_cr_hash_block_body(Block::from(x));
    assert!(u128::from(h) == r ^ x, "C20:cr_hash_block==pi(x)^x");
    kani::cover!(r != 0, "cr_hash_reachable");
}

#[kani::proof]
#[kani::unwind(18)]
fn c20_tccr_hash_structure() {
    let x: u128 = kani::any();
    let t: u128 = kani::any();
    let r0: u128 = kani::any();
    let r1: u128 = kani::any();
    unsafe {
        ENV_PI_P = [x, r0 ^ t];
        ENV_PI_R = [r0, r1];
    }
    let h = seg_tccr_hash_block_body(Block::from(t), Block::from(x));
    let second = if r0 ^ t == x { r0 } else { r1 };
    assert!(u128::from(h) == second ^ r0, "C20:tccr_hash_block==pi(pi(x)^tweak)^pi(x)");
    kani::cover!(t != 0 && r0 != r1, "tccr_hash_reachable");
}
