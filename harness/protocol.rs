// Kani harnesses appended (as child module `__verif`) to src/mpc/protocol.rs of the scratch copy.
// A child module sees the private items of its parent: validate, Context, chunk_size_iter, ...
#![allow(unused_imports, dead_code, clippy::all)]
use super::*;
use garble_lang::register_circuit::{And, Circuit, Input, Inst, Not, Op, Reg, Xor};
use crate::mpc::data_types::{Auth, Delta, GarbledGate, Key, Label, Mac, Share};
use std::collections::BTreeSet;

include!("/verif/harness/common.rs");

/// A channel that is never used by the synchronous functions under check.
pub(crate) struct NoChan;
impl Channel for NoChan {
    type SendError = ();
    type RecvError = ();
    async fn send_bytes_to(&self, _p: usize, _d: Vec<u8>, _ph: &str) -> Result<(), ()> {
        Err(())
    }
    async fn recv_bytes_from(&self, _p: usize, _ph: &str) -> Result<Vec<u8>, ()> {
        Err(())
    }
}

fn any_reg() -> Reg {
    Reg(kani::any())
}

fn any_inst() -> Inst {
    let k: u8 = kani::any();
    let op = match k {
        0 => Op::Xor(Xor(any_reg(), any_reg())),
        1 => Op::And(And(any_reg(), any_reg())),
        2 => Op::Not(Not(any_reg())),
        _ => Op::Input(Input {
            party: kani::any(),
            input: kani::any(),
        }),
    };
    Inst { out: any_reg(), op }
}

fn any_insts_le3() -> Vec<Inst> {
    let l: u8 = kani::any();
    match l {
        0 => vec![],
        1 => vec![any_inst()],
        2 => vec![any_inst(), any_inst()],
        _ => vec![any_inst(), any_inst(), any_inst()],
    }
}

fn any_regs_le2() -> Vec<Reg> {
    let l: u8 = kani::any();
    match l {
        0 => vec![],
        1 => vec![any_reg()],
        _ => vec![any_reg(), any_reg()],
    }
}

/// Fully symbolic circuit *description*: nothing is assumed about consistency.
fn any_circuit_desc() -> Circuit {
    let input_regs = any_vec_usize_le3();
    // per-party input counts ≤ 2 so that `inputs.len()` can match (bound, DESIGN C18)
    for r in input_regs.iter() {
        kani::assume(*r <= 2);
    }
    let max_reg_count: usize = kani::any();
    kani::assume(max_reg_count <= 3);
    Circuit {
        input_regs,
        insts: any_insts_le3(),
        max_reg_count,
        output_regs: any_regs_le2(),
        and_ops: kani::any(),
    }
}

// ---------------------------------------------------------------- C18

/// C18 obligations 1+2 (DESIGN §3/C18): validate() never panics; Ok ⇒ all documented
/// argument conditions hold. One assertion per documented condition so that a failing
/// condition is identified by its CBMC property description.
#[kani::proof]
#[kani::unwind(5)]
#[kani::stub(std::fmt::format, no_format)]
fn c18_validate_ok_implies() {
    let circ = any_circuit_desc();
    let inputs = any_vec_bool_le3();
    let p_out = any_vec_usize_le3();
    let p_eval: usize = kani::any();
    let p_own: usize = kani::any();
    let ch = NoChan;
    let ctx = Context::new(
        &ch,
        &circ,
        &inputs,
        Preprocessor::Untrusted,
        p_eval,
        p_own,
        &p_out,
        None,
    );
    let r = validate(&ctx);
    let parties = circ.input_regs.len();
    let ok = r.is_ok();
    std::mem::forget(r); // error drop glue is not the subject
    kani::cover!(ok, "validate_ok_reachable");
    kani::cover!(!ok, "validate_err_reachable");
    if ok {
        assert!(p_own < parties, "C18:ok-implies:p_own<parties");
        assert!(p_eval < parties, "C18:ok-implies:p_eval<parties");
        assert!(!p_out.is_empty(), "C18:ok-implies:p_out-nonempty");
        let mut all_in = true;
        for p in p_out.iter() {
            all_in &= *p < parties;
        }
        assert!(all_in, "C18:ok-implies:p_out<parties");
        // an output set that repeats an index must be rejected or treated as a set; output()
        // sends one message per entry of p_out, so (as long as that is so) Ok must imply
        // that the entries are distinct
        let mut distinct = true;
        let mut i = 0;
        while i < p_out.len() {
            let mut j = 0;
            while j < i {
                distinct &= p_out[i] != p_out[j];
                j += 1;
            }
            i += 1;
        }
        assert!(distinct, "C18:ok-implies:p_out-duplicate-free");
        assert!(
            p_own < parties && inputs.len() == circ.input_regs[p_own],
            "C18:ok-implies:inputs.len"
        );
        let cv = circ.validate().is_ok();
        assert!(cv, "C18:ok-implies:circuit.validate");
    }
    std::mem::forget(circ);
}

// ---------------------------------------------------------------- C01 (batch / chunk agreement)

/// chunk_size_iter, small-value class: every total ≤ 24, chunk ≤ 8.
#[kani::proof]
#[kani::unwind(26)]
fn c01_chunk_iter_small() {
    let total: usize = kani::any();
    let chunk: usize = kani::any();
    kani::assume(total <= 24 && chunk <= 8);
    let mut n = 0usize;
    let mut sum = 0usize;
    let mut last = 0usize;
    let mut all_but_last_full = true;
    let mut in_range = true;
    for s in chunk_size_iter(total, chunk) {
        if n > 0 {
            all_but_last_full &= last == chunk;
        }
        in_range &= s >= 1 && s <= chunk;
        sum += s;
        last = s;
        n += 1;
    }
    if chunk == 0 {
        assert!(n == 0, "C01:chunk_iter:chunk0-yields-nothing");
    } else {
        assert!(sum == total, "C01:chunk_iter:sum==total");
        assert!(in_range, "C01:chunk_iter:sizes-in-1..=chunk");
        assert!(all_but_last_full, "C01:chunk_iter:all-but-last==chunk");
        assert!(n == total.div_ceil(chunk), "C01:chunk_iter:count==ceil");
    }
    kani::cover!(n == 4 && last != chunk, "chunk_iter_remainder_reachable");
}

/// Build probe used by setup.sh to warm the Kani target directory.
#[kani::proof]
fn build_probe() {
    let x: u8 = kani::any();
    assert!(x as u16 + 1 > 0);
}

fn ctx_for_counts<'a>(ch: &'a NoChan, circ: &'a Circuit) -> Context<'a, NoChan> {
    Context::new(ch, circ, &[], Preprocessor::Untrusted, 0, 1, &[], None)
}

fn header_circuit(in0: usize, in1: usize, and_ops: usize) -> Circuit {
    Circuit {
        input_regs: vec![in0, in1],
        insts: vec![],
        max_reg_count: 0,
        output_regs: vec![],
        and_ops,
    }
}

/// Batch-size lemmas over all counts < 2^40 through the real Context::new.
#[kani::proof]
#[kani::unwind(4)]
fn c01_batch_sizes() {
    let in0: usize = kani::any();
    let in1: usize = kani::any();
    let and_ops: usize = kani::any();
    kani::assume(in0 < (1 << 39) && in1 < (1 << 39) && and_ops < (1 << 40));
    let circ = header_circuit(in0, in1, and_ops);
    let ch = NoChan;
    let ctx = ctx_for_counts(&ch, &circ);
    assert!(ctx.num_inputs == in0 + in1, "C01:ctx:num_inputs==sum(input_regs)");
    assert!(ctx.num_and_ops == and_ops, "C01:ctx:num_and_ops==and_ops");
    assert!(ctx.p_max == 2, "C01:ctx:p_max==parties");
    let total = in0 + in1 + and_ops;
    let rb = ctx.random_shares_batch_size();
    let ab = ctx.and_share_batch_size();
    // result is 0 iff the total is 0 (chunks(0) / fashare(l=0) unreachable behind the guards)
    assert!((rb == 0) == (total == 0), "C01:random_batch:zero-iff-total-zero");
    assert!((ab == 0) == (and_ops == 0), "C01:and_batch:zero-iff-no-ands");
    assert!(rb <= total, "C01:random_batch:<=total");
    assert!(ab <= and_ops, "C01:and_batch:<=and_ops");
    assert!(rb >= if total < 1000 { total } else { 1000 }, "C01:random_batch:>=min(total,1000)");
    assert!(ab >= if and_ops < 1000 { and_ops } else { 1000 }, "C01:and_batch:>=min(and_ops,1000)");
    // at most 9 chunks: 9*batch >= total
    assert!(total <= 9000 || rb * 9 >= total, "C01:random_batch:at-most-9-chunks");
    assert!(and_ops <= 9000 || ab * 9 >= and_ops, "C01:and_batch:at-most-9-chunks");
    // small totals are one single batch
    assert!(total > 1000 || rb == total, "C01:random_batch:single-batch-up-to-1000");
    assert!(and_ops > 1000 || ab == and_ops, "C01:and_batch:single-batch-up-to-1000");
    // the share request of gen_auth_bits cannot overflow
    let b = bucket_size(ab);
    assert!(ab.checked_mul(b).and_then(|v| v.checked_mul(3)).is_some(), "C01:and_batch:len*b*3-no-overflow");
    kani::cover!(ab > 1000 && ab < and_ops, "multi_batch_reachable");
    kani::cover!(and_ops == 1001 && ab == 1000, "boundary_1001_reachable");
}

/// chunk_size_iter for the (total, chunk) pairs the engine can pass: total < 2^40 and at most
/// 10 chunks (guaranteed by c01_batch_sizes: <= 9 full chunks + remainder).
#[kani::proof]
#[kani::unwind(13)]
fn c01_chunk_iter_wide() {
    let total: usize = kani::any();
    let chunk: usize = kani::any();
    kani::assume(total < (1 << 40));
    kani::assume(chunk > 0 && total / chunk <= 10);
    let mut n = 0usize;
    let mut sum = 0usize;
    let mut last = 0usize;
    let mut all_but_last_full = true;
    let mut in_range = true;
    for s in chunk_size_iter(total, chunk) {
        if n > 0 {
            all_but_last_full &= last == chunk;
        }
        in_range &= s >= 1 && s <= chunk;
        sum += s;
        last = s;
        n += 1;
    }
    assert!(sum == total, "C01:chunk_iter:sum==total");
    assert!(in_range, "C01:chunk_iter:sizes-in-1..=chunk");
    assert!(all_but_last_full, "C01:chunk_iter:all-but-last==chunk");
    assert!(n == total.div_ceil(chunk), "C01:chunk_iter:count==ceil");
    kani::cover!(n == 10 && last != chunk, "ten_chunks_with_remainder_reachable");
}

/// Producer/consumer agreement: the flush pattern used by init_and_shares, by the garbler's
/// gate streaming and by the evaluator's table shares ("push; if len >= batch {flush}" ...
/// "if !empty {flush}") emits exactly the sizes chunk_size_iter(total, batch) announces to the
/// receiving side, for the real and_share_batch_size. The three-line flush pattern is re-stated
/// here (it is inline in async code) - listed as an assumption; C01's segment harnesses check
/// the real loops for small sizes.
#[kani::proof]
#[kani::unwind(13)]
fn c01_flush_pattern_matches_chunk_iter() {
    let and_ops: usize = kani::any();
    kani::assume(and_ops < (1 << 40));
    let circ = header_circuit(1, 1, and_ops);
    let ch = NoChan;
    let ctx = ctx_for_counts(&ch, &circ);
    let batch = ctx.and_share_batch_size();
    // abstract producer: k-th flush happens when `batch` items accumulated, remainder at the end
    let mut it = chunk_size_iter(and_ops, batch);
    let full = if batch == 0 { 0 } else { and_ops / batch };
    let rem = if batch == 0 { 0 } else { and_ops % batch };
    let mut ok = true;
    let mut k = 0usize;
    while k < full {
        ok &= it.next() == Some(batch);
        k += 1;
    }
    if rem != 0 {
        ok &= it.next() == Some(rem);
    }
    ok &= it.next().is_none();
    assert!(ok, "C01:flush-pattern==chunk_size_iter(and_ops, and_share_batch_size)");
    kani::cover!(full == 8 && rem != 0, "eight_full_plus_remainder_reachable");
}

// =============================================================================================
// Segment harnesses: synchronous statement runs cut out of the async protocol functions on
// every run (runner/segments.py). What arrived in the preceding `.await` is arbitrary.
include!("/verif/harness/segs_protocol.rs");

fn sh2(bit: bool, m0: u128, k0: u128, m1: u128, k1: u128) -> Share {
    Share(bit, Auth(vec![(Mac(m0), Key(k0)), (Mac(m1), Key(k1))]))
}

fn any_share2() -> Share {
    sh2(kani::any(), kani::any(), kani::any(), kani::any(), kani::any())
}

fn any_opt_bool_mac() -> Option<(bool, Mac)> {
    if kani::any() {
        Some((kani::any(), Mac(kani::any())))
    } else {
        None
    }
}

fn any_opt_bool() -> Option<bool> {
    if kani::any() {
        Some(kani::any())
    } else {
        None
    }
}

fn out_circuit(o0: u32, o1: u32) -> Circuit {
    Circuit {
        input_regs: vec![1, 1],
        insts: vec![],
        max_reg_count: 2,
        output_regs: vec![Reg(o0), Reg(o1)],
        and_ops: 0,
    }
}

/// C02/C03 - output opening at an output party (n = 2, own index 0, peer 1, two output
/// positions over two registers, duplicates allowed): whatever the peer sent as its
/// output-wire shares, Ok(bits) implies that for every output register the peer's share was
/// present, its MAC verified under the own key and global key, and the returned bit is
/// evaluator value ^ own share ^ peer share.
fn output_tail_n2(o0: u32, o1: u32) {
    let circ = out_circuit(o0, o1);
    let delta = Delta(kani::any());
    let own = [any_share2(), any_share2()];
    let own_bits = [own[0].0, own[1].0];
    let own_keys = [own[0].1 .0[1].1 .0, own[1].1 .0[1].1 .0];
    let peer = [any_opt_bool_mac(), any_opt_bool_mac()];
    let ev = [any_opt_bool(), any_opt_bool()];
    let p_out = [0usize];
    let uniq: BTreeSet<Reg> = circ.output_regs.iter().copied().collect();
    let [s0, s1] = own;
    let r = seg_output_tail(
        &circ,
        0,
        2,
        &p_out,
        delta,
        vec![s0, s1],
        vec![vec![], vec![peer[0], peer[1]]],
        vec![ev[0], ev[1]],
        uniq,
    );
    let ok = r.is_ok();
    kani::cover!(ok, "output_ok_reachable");
    kani::cover!(!ok, "output_err_reachable");
    if let Ok(bits) = &r {
        assert!(bits.len() == 2, "C02:output:one-bit-per-output-position(duplicates-preserved)");
        let regs = [o0 as usize, o1 as usize];
        let mut idx = 0;
        while idx < 2 {
            let w = regs[idx];
            assert!(ev[w].is_some(), "C02:output:evaluator-value-present");
            assert!(peer[w].is_some(), "C02:output:omitted-peer-share-not-accepted");
            if let (Some(v), Some((rb, mac))) = (ev[w], peer[w]) {
                assert!(mac.0 == own_keys[w] ^ (if rb { delta.0 } else { 0 }), "C03:output:peer-share-MAC-verified");
                assert!(bits.len() == 2 && bits[idx] == (v ^ own_bits[w] ^ rb), "C02:output:bit==value^own-share^peer-share");
            }
            idx += 1;
        }
    }
    std::mem::forget(r);
    std::mem::forget(circ);
}

macro_rules! output_tail_variant {
    ($name:ident, $o0:expr, $o1:expr) => {
        #[kani::proof]
        #[kani::unwind(6)]
        #[kani::stub(std::fmt::format, no_format)]
        fn $name() {
            output_tail_n2($o0, $o1);
        }
    };
}
output_tail_variant!(c02_output_tail_n2_regs01, 0, 1);
output_tail_variant!(c02_output_tail_n2_regs10, 1, 0);
output_tail_variant!(c02_output_tail_n2_regs11, 1, 1);

/// C05 (result side): a party outside the output set returns an empty vector from the opening.
#[kani::proof]
#[kani::unwind(6)]
#[kani::stub(std::fmt::format, no_format)]
fn c05_output_tail_non_output_party_gets_nothing() {
    let circ = out_circuit(0, 1);
    let p_out = [1usize];
    let uniq: BTreeSet<Reg> = circ.output_regs.iter().copied().collect();
    let r = seg_output_tail(
        &circ,
        0,
        2,
        &p_out,
        Delta(kani::any()),
        vec![any_share2(), any_share2()],
        vec![],
        vec![any_opt_bool(), any_opt_bool()],
        uniq,
    );
    let empty = matches!(&r, Ok(v) if v.is_empty());
    assert!(empty, "C05:output:non-output-party-returns-empty-vector");
    kani::cover!(empty, "non_output_reachable");
    std::mem::forget(r);
    std::mem::forget(circ);
}

/// C03 - evaluator's revealed (value, label) pairs are checked against the own zero-label and
/// global key: Ok implies every output register carries Some((b, label0 ^ b*delta)).
fn output_label_check_n2(o0: u32, o1: u32) {
    let circ = out_circuit(o0, o1);
    let delta = Delta(kani::any());
    let l: [u128; 2] = kani::any();
    let wl: [Option<(bool, Label)>; 2] = [
        if kani::any() { Some((kani::any(), Label(kani::any()))) } else { None },
        if kani::any() { Some((kani::any(), Label(kani::any()))) } else { None },
    ];
    let uniq: BTreeSet<Reg> = circ.output_regs.iter().copied().collect();
    let r = seg_output_label_check(&circ, delta, vec![Label(l[0]), Label(l[1])], vec![wl[0], wl[1]], vec![None, None], uniq);
    let ok = r.is_ok();
    kani::cover!(ok, "label_check_ok_reachable");
    kani::cover!(!ok, "label_check_err_reachable");
    if let Ok(regs) = &r {
        let ws = [o0 as usize, o1 as usize];
        let mut idx = 0;
        while idx < 2 {
            let w = ws[idx];
            assert!(wl[w].is_some(), "C03:output-label:missing-value-not-accepted");
            if let Some((b, lab)) = wl[w] {
                assert!(lab.0 == l[w] ^ (if b { delta.0 } else { 0 }), "C03:output-label:label==label0^b*delta");
                assert!(regs[w] == Some(b), "C03:output-label:accepted-value-is-the-revealed-one");
                assert!(regs[w] == Some(b) && lab.0 == l[w] ^ (if b { delta.0 } else { 0 }), "C02:output:evaluator-value-accepted-only-together-with-its-own-label");
            }
            idx += 1;
        }
    }
    std::mem::forget(r);
    std::mem::forget(circ);
}

macro_rules! output_label_variant {
    ($name:ident, $o0:expr, $o1:expr) => {
        #[kani::proof]
        #[kani::unwind(6)]
        #[kani::stub(std::fmt::format, no_format)]
        fn $name() {
            output_label_check_n2($o0, $o1);
        }
    };
}
output_label_variant!(c03_output_label_check_n2_regs01, 0, 1);
output_label_variant!(c03_output_label_check_n2_regs11, 1, 1);

fn ip_circuit(party0: u32, party1: u32, in0: u32, in1: u32) -> Circuit {
    Circuit {
        input_regs: vec![1, 1],
        insts: vec![
            Inst { out: Reg(0), op: Op::Input(Input { party: party0, input: in0 }) },
            Inst { out: Reg(1), op: Op::Input(Input { party: party1, input: in1 }) },
        ],
        max_reg_count: 2,
        output_regs: vec![Reg(0)],
        and_ops: 0,
    }
}

/// C03 - input sharing at the input owner (n = 2, own index 0): Ok implies that for every own
/// input wire the peer's mask share was present and its MAC verified, and the masked input is
/// input ^ own share ^ peer share; wires of the other party stay None.
#[kani::proof]
#[kani::unwind(6)]
#[kani::stub(std::fmt::format, no_format)]
fn c03_ip_mid_n2() {
    let party0: u32 = kani::any();
    let party1: u32 = kani::any();
    kani::assume(party0 < 2 && party1 < 2);
    let circ = ip_circuit(party0, party1, 0, if party0 == party1 { 1 } else { 0 });
    let delta = Delta(kani::any());
    let inputs: [bool; 2] = kani::any();
    let n_in = if party0 == 0 && party1 == 0 { 2 } else { 1 };
    let own = [any_share2(), any_share2()];
    let own_bits = [own[0].0, own[1].0];
    let own_keys = [own[0].1 .0[1].1 .0, own[1].1 .0[1].1 .0];
    let peer = [any_opt_bool_mac(), any_opt_bool_mac()];
    let [s0, s1] = own;
    let r = seg_ip_mid(&circ, &inputs[..n_in], 0, 2, delta, vec![s0, s1], vec![vec![], vec![peer[0], peer[1]]]);
    let ok = r.is_ok();
    kani::cover!(ok, "ip_mid_ok_reachable");
    kani::cover!(!ok, "ip_mid_err_reachable");
    if let Ok(masked) = &r {
        assert!(masked.len() == 2, "C03:input:masked-vector-has-max_reg_count-slots");
        let parties = [party0, party1];
        let mut w = 0;
        while w < 2 {
            if parties[w] == 0 {
                assert!(peer[w].is_some(), "C03:input:missing-peer-mask-share-not-accepted");
                if let Some((b, mac)) = peer[w] {
                    assert!(mac.0 == own_keys[w] ^ (if b { delta.0 } else { 0 }), "C03:input:peer-mask-share-MAC-verified");
                    let inp = if w == 1 && party0 == 0 { inputs[1] } else { inputs[0] };
                    assert!(masked[w] == Some(inp ^ own_bits[w] ^ b), "C03:input:masked==input^own-share^peer-share");
                }
            } else {
                assert!(masked[w].is_none(), "C03:input:no-masked-value-for-foreign-wire");
            }
            w += 1;
        }
    }
    std::mem::forget(r);
    std::mem::forget(circ);
}

/// C03 - ConflictingInputMask: after the verified broadcast a peer may fill only wires the
/// party did not fill itself; Ok implies the merged vector is the own entries plus the peer's
/// entries on disjoint positions.
#[kani::proof]
#[kani::unwind(6)]
#[kani::stub(std::fmt::format, no_format)]
fn c03_ip_post_n2() {
    let mine = [any_opt_bool(), any_opt_bool(), any_opt_bool()];
    let theirs = [any_opt_bool(), any_opt_bool(), any_opt_bool()];
    let r = seg_ip_post(0, 2, vec![mine[0], mine[1], mine[2]], vec![vec![], vec![theirs[0], theirs[1], theirs[2]]]);
    let ok = r.is_ok();
    kani::cover!(ok, "ip_post_ok_reachable");
    kani::cover!(!ok, "ip_post_err_reachable");
    if let Ok(m) = &r {
        let mut w = 0;
        while w < 3 {
            assert!(!(mine[w].is_some() && theirs[w].is_some()), "C03:input:peer-cannot-overwrite-own-masked-input");
            assert!(m[w] == if mine[w].is_some() { mine[w] } else { theirs[w] }, "C03:input:merged==own-or-peer");
            w += 1;
        }
    }
    std::mem::forget(r);
}

/// C05/C06 (send side of input sharing) + C18 (no panic on misplaced Input instructions):
/// mask shares of an input wire go to the wire's owner only, never to a third party and never
/// for non-input registers; arbitrary Input placement/party/index must not panic.
#[kani::proof]
#[kani::unwind(6)]
#[kani::stub(std::fmt::format, no_format)]
fn c05_ip_pre_n3() {
    // 3 parties, own index 1; 2 instructions of any opcode, Input ones with arbitrary party/index
    let insts = vec![any_inst(), any_inst()];
    let max_reg_count: usize = 3;
    kani::assume((insts[0].out.0 as usize) < max_reg_count && (insts[1].out.0 as usize) < max_reg_count);
    let mut num_inputs = 0usize;
    let mut owners: [Option<u32>; 3] = [None; 3];
    let mut k = 0;
    while k < 2 {
        if let Op::Input(Input { party, .. }) = insts[k].op {
            num_inputs += 1;
            // documented validity (Circuit::validate): an Input at position i writes register i
            kani::assume(insts[k].out.0 as usize == k);
            owners[k] = Some(party);
        }
        k += 1;
    }
    let circ = Circuit { input_regs: vec![1, 1, 1], insts, max_reg_count, output_regs: vec![Reg(0)], and_ops: 0 };
    // the engine hands over num_inputs := sum(input_regs) shares; the description may declare
    // fewer inputs than it has Input instructions (counters disagree): 1 or 2 shares
    let mk = || Share(kani::any(), Auth(vec![(Mac(kani::any()), Key(0)), (Mac(0), Key(0)), (Mac(kani::any()), Key(0))]));
    let shares = if kani::any() { vec![mk()] } else { vec![mk(), mk()] };
    let r = seg_ip_pre(&circ, 1, 3, shares);
    kani::cover!(r.is_ok() && num_inputs == 2, "ip_pre_ok_reachable");
    kani::cover!(r.is_err(), "ip_pre_err_reachable");
    if let Ok(w) = &r {
        assert!(w.len() == 3, "C05:input:one-message-slot-per-party");
        let mut p = 0;
        while p < 3 {
            let mut reg = 0;
            while reg < 3 {
                if w.len() == 3 && w[p].len() == 3 && w[p][reg].is_some() {
                    assert!(p != 1, "C05:input:no-share-addressed-to-self");
                    assert!(owners[reg] == Some(p as u32), "C05:input:mask-share-goes-to-the-input-owner-only");
                }
                reg += 1;
            }
            p += 1;
        }
    }
    std::mem::forget(r);
    std::mem::forget(circ);
}
