// Kani harnesses appended (as child module `__verif`) to src/mpc/protocol.rs of the scratch copy.
// A child module sees the private items of its parent: validate, Context, chunk_size_iter, ...
#![allow(unused_imports, dead_code, clippy::all)]
use super::*;
use garble_lang::register_circuit::{And, Circuit, Input, Inst, Not, Op, Reg, Xor};

include!("/verif/harness/common.rs");

/// A channel that is never used by the synchronous functions under check.
pub(crate) struct NoChan;
impl Channel for NoChan {
    type SendError = ();
    type RecvError = ();
    async fn send_bytes_to(&self, _p: usize, _d: Vec<u8>, _ph: &str) -> Result<(), ()> {
        Err(())
    }
    async fn recv_bytes_from(&self, _p: usize, _ph: &str) -> Result<Vec<u8>, ()> {
        Err(())
    }
}

fn any_reg() -> Reg {
    Reg(kani::any())
}

fn any_inst() -> Inst {
    let k: u8 = kani::any();
    let op = match k {
        0 => Op::Xor(Xor(any_reg(), any_reg())),
        1 => Op::And(And(any_reg(), any_reg())),
        2 => Op::Not(Not(any_reg())),
        _ => Op::Input(Input {
            party: kani::any(),
            input: kani::any(),
        }),
    };
    Inst { out: any_reg(), op }
}

fn any_insts_le3() -> Vec<Inst> {
    let l: u8 = kani::any();
    match l {
        0 => vec![],
        1 => vec![any_inst()],
        2 => vec![any_inst(), any_inst()],
        _ => vec![any_inst(), any_inst(), any_inst()],
    }
}

fn any_regs_le2() -> Vec<Reg> {
    let l: u8 = kani::any();
    match l {
        0 => vec![],
        1 => vec![any_reg()],
        _ => vec![any_reg(), any_reg()],
    }
}

/// Fully symbolic circuit *description*: nothing is assumed about consistency.
fn any_circuit_desc() -> Circuit {
    let input_regs = any_vec_usize_le3();
    // per-party input counts ≤ 2 so that `inputs.len()` can match (bound, DESIGN C18)
    for r in input_regs.iter() {
        kani::assume(*r <= 2);
    }
    let max_reg_count: usize = kani::any();
    kani::assume(max_reg_count <= 3);
    Circuit {
        input_regs,
        insts: any_insts_le3(),
        max_reg_count,
        output_regs: any_regs_le2(),
        and_ops: kani::any(),
    }
}

// ---------------------------------------------------------------- C18

/// C18 obligations 1+2 (DESIGN §3/C18): validate() never panics; Ok ⇒ all documented
/// argument conditions hold. One assertion per documented condition so that a failing
/// condition is identified by its CBMC property description.
#[kani::proof]
#[kani::unwind(5)]
#[kani::stub(std::fmt::format, no_format)]
fn c18_validate_ok_implies() {
    let circ = any_circuit_desc();
    let inputs = any_vec_bool_le3();
    let p_out = any_vec_usize_le3();
    let p_eval: usize = kani::any();
    let p_own: usize = kani::any();
    let ch = NoChan;
    let ctx = Context::new(
        &ch,
        &circ,
        &inputs,
        Preprocessor::Untrusted,
        p_eval,
        p_own,
        &p_out,
        None,
    );
    let r = validate(&ctx);
    let parties = circ.input_regs.len();
    let ok = r.is_ok();
    std::mem::forget(r); // error drop glue is not the subject
    kani::cover!(ok, "validate_ok_reachable");
    kani::cover!(!ok, "validate_err_reachable");
    if ok {
        assert!(p_own < parties, "C18:ok-implies:p_own<parties");
        assert!(p_eval < parties, "C18:ok-implies:p_eval<parties");
        assert!(!p_out.is_empty(), "C18:ok-implies:p_out-nonempty");
        let mut all_in = true;
        for p in p_out.iter() {
            all_in &= *p < parties;
        }
        assert!(all_in, "C18:ok-implies:p_out<parties");
        assert!(
            p_own < parties && inputs.len() == circ.input_regs[p_own],
            "C18:ok-implies:inputs.len"
        );
        let cv = circ.validate().is_ok();
        assert!(cv, "C18:ok-implies:circuit.validate");
    }
    std::mem::forget(circ);
}

// ---------------------------------------------------------------- C01 (batch / chunk agreement)

/// chunk_size_iter, small-value class: every total ≤ 40, chunk ≤ 12.
#[kani::proof]
#[kani::unwind(42)]
fn c01_chunk_iter_small() {
    let total: usize = kani::any();
    let chunk: usize = kani::any();
    kani::assume(total <= 40 && chunk <= 12);
    let mut n = 0usize;
    let mut sum = 0usize;
    let mut last = 0usize;
    let mut all_but_last_full = true;
    let mut in_range = true;
    for s in chunk_size_iter(total, chunk) {
        if n > 0 {
            all_but_last_full &= last == chunk;
        }
        in_range &= s >= 1 && s <= chunk;
        sum += s;
        last = s;
        n += 1;
    }
    if chunk == 0 {
        assert!(n == 0, "C01:chunk_iter:chunk0-yields-nothing");
    } else {
        assert!(sum == total, "C01:chunk_iter:sum==total");
        assert!(in_range, "C01:chunk_iter:sizes-in-1..=chunk");
        assert!(all_but_last_full, "C01:chunk_iter:all-but-last==chunk");
        assert!(n == total.div_ceil(chunk), "C01:chunk_iter:count==ceil");
    }
    kani::cover!(n == 4 && last != chunk, "chunk_iter_remainder_reachable");
}

/// Build probe used by setup.sh to warm the Kani target directory.
#[kani::proof]
fn build_probe() {
    let x: u8 = kani::any();
    assert!(x as u16 + 1 > 0);
}

fn ctx_for_counts<'a>(ch: &'a NoChan, circ: &'a Circuit) -> Context<'a, NoChan> {
    Context::new(ch, circ, &[], Preprocessor::Untrusted, 0, 1, &[], None)
}

fn header_circuit(in0: usize, in1: usize, and_ops: usize) -> Circuit {
    Circuit {
        input_regs: vec![in0, in1],
        insts: vec![],
        max_reg_count: 0,
        output_regs: vec![],
        and_ops,
    }
}

/// Batch-size lemmas over all counts < 2^40 through the real Context::new.
#[kani::proof]
#[kani::unwind(4)]
fn c01_batch_sizes() {
    let in0: usize = kani::any();
    let in1: usize = kani::any();
    let and_ops: usize = kani::any();
    kani::assume(in0 < (1 << 39) && in1 < (1 << 39) && and_ops < (1 << 40));
    let circ = header_circuit(in0, in1, and_ops);
    let ch = NoChan;
    let ctx = ctx_for_counts(&ch, &circ);
    assert!(ctx.num_inputs == in0 + in1, "C01:ctx:num_inputs==sum(input_regs)");
    assert!(ctx.num_and_ops == and_ops, "C01:ctx:num_and_ops==and_ops");
    assert!(ctx.p_max == 2, "C01:ctx:p_max==parties");
    let total = in0 + in1 + and_ops;
    let rb = ctx.random_shares_batch_size();
    let ab = ctx.and_share_batch_size();
    // result is 0 iff the total is 0 (chunks(0) / fashare(l=0) unreachable behind the guards)
    assert!((rb == 0) == (total == 0), "C01:random_batch:zero-iff-total-zero");
    assert!((ab == 0) == (and_ops == 0), "C01:and_batch:zero-iff-no-ands");
    assert!(rb <= total, "C01:random_batch:<=total");
    assert!(ab <= and_ops, "C01:and_batch:<=and_ops");
    assert!(rb >= if total < 1000 { total } else { 1000 }, "C01:random_batch:>=min(total,1000)");
    assert!(ab >= if and_ops < 1000 { and_ops } else { 1000 }, "C01:and_batch:>=min(and_ops,1000)");
    // at most 9 chunks: 9*batch >= total
    assert!(total <= 9000 || rb * 9 >= total, "C01:random_batch:at-most-9-chunks");
    assert!(and_ops <= 9000 || ab * 9 >= and_ops, "C01:and_batch:at-most-9-chunks");
    // small totals are one single batch
    assert!(total > 1000 || rb == total, "C01:random_batch:single-batch-up-to-1000");
    assert!(and_ops > 1000 || ab == and_ops, "C01:and_batch:single-batch-up-to-1000");
    // the share request of gen_auth_bits cannot overflow
    let b = bucket_size(ab);
    assert!(ab.checked_mul(b).and_then(|v| v.checked_mul(3)).is_some(), "C01:and_batch:len*b*3-no-overflow");
    kani::cover!(ab > 1000 && ab < and_ops, "multi_batch_reachable");
    kani::cover!(and_ops == 1001 && ab == 1000, "boundary_1001_reachable");
}

/// chunk_size_iter for the (total, chunk) pairs the engine can pass: total < 2^40 and at most
/// 10 chunks (guaranteed by c01_batch_sizes: <= 9 full chunks + remainder).
#[kani::proof]
#[kani::unwind(13)]
fn c01_chunk_iter_wide() {
    let total: usize = kani::any();
    let chunk: usize = kani::any();
    kani::assume(total < (1 << 40));
    kani::assume(chunk > 0 && total / chunk <= 10);
    let mut n = 0usize;
    let mut sum = 0usize;
    let mut last = 0usize;
    let mut all_but_last_full = true;
    let mut in_range = true;
    for s in chunk_size_iter(total, chunk) {
        if n > 0 {
            all_but_last_full &= last == chunk;
        }
        in_range &= s >= 1 && s <= chunk;
        sum += s;
        last = s;
        n += 1;
    }
    assert!(sum == total, "C01:chunk_iter:sum==total");
    assert!(in_range, "C01:chunk_iter:sizes-in-1..=chunk");
    assert!(all_but_last_full, "C01:chunk_iter:all-but-last==chunk");
    assert!(n == total.div_ceil(chunk), "C01:chunk_iter:count==ceil");
    kani::cover!(n == 10 && last != chunk, "ten_chunks_with_remainder_reachable");
}

/// Producer/consumer agreement: the flush pattern used by init_and_shares, by the garbler's
/// gate streaming and by the evaluator's table shares ("push; if len >= batch {flush}" ...
/// "if !empty {flush}") emits exactly the sizes chunk_size_iter(total, batch) announces to the
/// receiving side, for the real and_share_batch_size. The three-line flush pattern is re-stated
/// here (it is inline in async code) - listed as an assumption; C01's segment harnesses check
/// the real loops for small sizes.
#[kani::proof]
#[kani::unwind(13)]
fn c01_flush_pattern_matches_chunk_iter() {
    let and_ops: usize = kani::any();
    kani::assume(and_ops < (1 << 40));
    let circ = header_circuit(1, 1, and_ops);
    let ch = NoChan;
    let ctx = ctx_for_counts(&ch, &circ);
    let batch = ctx.and_share_batch_size();
    // abstract producer: k-th flush happens when `batch` items accumulated, remainder at the end
    let mut it = chunk_size_iter(and_ops, batch);
    let full = if batch == 0 { 0 } else { and_ops / batch };
    let rem = if batch == 0 { 0 } else { and_ops % batch };
    let mut ok = true;
    let mut k = 0usize;
    while k < full {
        ok &= it.next() == Some(batch);
        k += 1;
    }
    if rem != 0 {
        ok &= it.next() == Some(rem);
    }
    ok &= it.next().is_none();
    assert!(ok, "C01:flush-pattern==chunk_size_iter(and_ops, and_share_batch_size)");
    kani::cover!(full == 9 && rem != 0, "nine_full_plus_remainder_reachable");
}
