// Kani harnesses appended (as child module `__verif`) to src/mpc/protocol.rs of the scratch copy.
// A child module sees the private items of its parent: validate, Context, chunk_size_iter, ...
#![allow(unused_imports, dead_code, clippy::all)]
use super::*;
use garble_lang::register_circuit::{And, Circuit, Input, Inst, Not, Op, Reg, Xor};
use crate::mpc::data_types::{Auth, Delta, GarbledGate, Key, Label, Mac, Share};
use crate::mpc::garble::{self, GarblingKey};
use std::collections::BTreeSet;

include!("/verif/harness/common.rs");
/// Property-scoped assertion: a harness body shared by several properties is instantiated once
/// per owning property; only the assertions of that property are active in an instance (Kani
/// stops a path at the first failed assertion, so assertions of another property placed
/// earlier would otherwise shadow the later ones).
#[allow(unused_macros)]
macro_rules! pa {
    ($own:expr, $p:expr, $cond:expr, $msg:expr) => {
        if $own == $p {
            assert!($cond, $msg);
        }
    };
}


/// A channel that is never used by the synchronous functions under check.
pub(crate) struct NoChan;
impl Channel for NoChan {
    type SendError = ();
    type RecvError = ();
    async fn send_bytes_to(&self, _p: usize, _d: Vec<u8>, _ph: &str) -> Result<(), ()> {
        Err(())
    }
    async fn recv_bytes_from(&self, _p: usize, _ph: &str) -> Result<Vec<u8>, ()> {
        Err(())
    }
}

fn mk_ctx<'a>(ch: &'a NoChan, circ: &'a Circuit, inputs: &'a [bool], p_eval: usize, p_own: usize, p_out: &'a [usize]) -> Context<'a, NoChan> {
    Context::new(ch, circ, inputs, Preprocessor::Untrusted, p_eval, p_own, p_out, None)
}

static NO_INPUTS: [bool; 0] = [];
static NO_PARTIES: [usize; 0] = [];

fn any_reg() -> Reg {
    Reg(kani::any())
}

fn any_inst() -> Inst {
    let k: u8 = kani::any();
    let op = match k {
        0 => Op::Xor(Xor(any_reg(), any_reg())),
        1 => Op::And(And(any_reg(), any_reg())),
        2 => Op::Not(Not(any_reg())),
        _ => Op::Input(Input {
            party: kani::any(),
            input: kani::any(),
        }),
    };
    Inst { out: any_reg(), op }
}

fn any_insts_le3() -> Vec<Inst> {
    let l: u8 = kani::any();
    match l {
        0 => vec![],
        1 => vec![any_inst()],
        2 => vec![any_inst(), any_inst()],
        _ => vec![any_inst(), any_inst(), any_inst()],
    }
}

fn any_regs_le2() -> Vec<Reg> {
    let l: u8 = kani::any();
    match l {
        0 => vec![],
        1 => vec![any_reg()],
        _ => vec![any_reg(), any_reg()],
    }
}

/// Fully symbolic circuit *description*: nothing is assumed about consistency.
fn any_circuit_desc() -> Circuit {
    let input_regs = any_vec_usize_le3();
    // per-party input counts ≤ 2 so that `inputs.len()` can match (bound, DESIGN C18)
    for r in input_regs.iter() {
        kani::assume(*r <= 2);
    }
    let max_reg_count: usize = kani::any();
    kani::assume(max_reg_count <= 3);
    Circuit {
        input_regs,
        insts: any_insts_le3(),
        max_reg_count,
        output_regs: any_regs_le2(),
        and_ops: kani::any(),
    }
}

// ---------------------------------------------------------------- C18

/// C18 obligations 1+2 (DESIGN §3/C18): validate() never panics; Ok ⇒ all documented
/// argument conditions hold. One assertion per documented condition so that a failing
/// condition is identified by its CBMC property description.
#[kani::proof]
#[kani::unwind(5)]
#[kani::stub(std::fmt::format, no_format)]
fn c18_validate_ok_implies() {
    let circ = any_circuit_desc();
    let inputs = any_vec_bool_le3();
    let p_out = any_vec_usize_le3();
    let p_eval: usize = kani::any();
    let p_own: usize = kani::any();
    let ch = NoChan;
    let ctx = Context::new(
        &ch,
        &circ,
        &inputs,
        Preprocessor::Untrusted,
        p_eval,
        p_own,
        &p_out,
        None,
    );
    let r = validate(&ctx);
    let parties = circ.input_regs.len();
    let ok = r.is_ok();
    std::mem::forget(r); // error drop glue is not the subject
    kani::cover!(ok, "validate_ok_reachable");
    kani::cover!(!ok, "validate_err_reachable");
    if ok {
        assert!(p_own < parties, "C18:ok-implies:p_own<parties");
        assert!(p_eval < parties, "C18:ok-implies:p_eval<parties");
        assert!(!p_out.is_empty(), "C18:ok-implies:p_out-nonempty");
        let mut all_in = true;
        for p in p_out.iter() {
            all_in &= *p < parties;
        }
        assert!(all_in, "C18:ok-implies:p_out<parties");
        // an output set that repeats an index must be rejected or treated as a set; output()
        // sends one message per entry of p_out, so (as long as that is so) Ok must imply
        // that the entries are distinct
        let mut distinct = true;
        let mut i = 0;
        while i < p_out.len() {
            let mut j = 0;
            while j < i {
                distinct &= p_out[i] != p_out[j];
                j += 1;
            }
            i += 1;
        }
        assert!(distinct, "C18:ok-implies:p_out-duplicate-free");
        assert!(
            p_own < parties && inputs.len() == circ.input_regs[p_own],
            "C18:ok-implies:inputs.len"
        );
        let cv = circ.validate().is_ok();
        assert!(cv, "C18:ok-implies:circuit.validate");
    }
    std::mem::forget(circ);
}

// ---------------------------------------------------------------- C01 (batch / chunk agreement)

/// chunk_size_iter, small-value class: every total ≤ 24, chunk ≤ 8.
#[kani::proof]
#[kani::unwind(26)]
fn c01_chunk_iter_small() {
    let total: usize = kani::any();
    let chunk: usize = kani::any();
    kani::assume(total <= 24 && chunk <= 8);
    let mut n = 0usize;
    let mut sum = 0usize;
    let mut last = 0usize;
    let mut all_but_last_full = true;
    let mut in_range = true;
    for s in chunk_size_iter(total, chunk) {
        if n > 0 {
            all_but_last_full &= last == chunk;
        }
        in_range &= s >= 1 && s <= chunk;
        sum += s;
        last = s;
        n += 1;
    }
    if chunk == 0 {
        assert!(n == 0, "C01:chunk_iter:chunk0-yields-nothing");
    } else {
        assert!(sum == total, "C01:chunk_iter:sum==total");
        assert!(in_range, "C01:chunk_iter:sizes-in-1..=chunk");
        assert!(all_but_last_full, "C01:chunk_iter:all-but-last==chunk");
        assert!(n == total.div_ceil(chunk), "C01:chunk_iter:count==ceil");
    }
    kani::cover!(n == 4 && last != chunk, "chunk_iter_remainder_reachable");
}

/// Build probe used by setup.sh to warm the Kani target directory.
#[kani::proof]
fn build_probe() {
    let x: u8 = kani::any();
    assert!(x as u16 + 1 > 0);
}

fn ctx_for_counts<'a>(ch: &'a NoChan, circ: &'a Circuit) -> Context<'a, NoChan> {
    Context::new(ch, circ, &[], Preprocessor::Untrusted, 0, 1, &[], None)
}

fn header_circuit(in0: usize, in1: usize, and_ops: usize) -> Circuit {
    Circuit {
        input_regs: vec![in0, in1],
        insts: vec![],
        max_reg_count: 0,
        output_regs: vec![],
        and_ops,
    }
}

/// Batch-size lemmas over all counts < 2^40 through the real Context::new.
#[kani::proof]
#[kani::unwind(4)]
fn c01_batch_sizes() {
    let in0: usize = kani::any();
    let in1: usize = kani::any();
    let and_ops: usize = kani::any();
    kani::assume(in0 < (1 << 39) && in1 < (1 << 39) && and_ops < (1 << 40));
    let circ = header_circuit(in0, in1, and_ops);
    let ch = NoChan;
    let ctx = ctx_for_counts(&ch, &circ);
    assert!(ctx.num_inputs == in0 + in1, "C01:ctx:num_inputs==sum(input_regs)");
    assert!(ctx.num_and_ops == and_ops, "C01:ctx:num_and_ops==and_ops");
    assert!(ctx.p_max == 2, "C01:ctx:p_max==parties");
    let total = in0 + in1 + and_ops;
    let rb = ctx.random_shares_batch_size();
    let ab = ctx.and_share_batch_size();
    // result is 0 iff the total is 0 (chunks(0) / fashare(l=0) unreachable behind the guards)
    assert!((rb == 0) == (total == 0), "C01:random_batch:zero-iff-total-zero");
    assert!((ab == 0) == (and_ops == 0), "C01:and_batch:zero-iff-no-ands");
    assert!(rb <= total, "C01:random_batch:<=total");
    assert!(ab <= and_ops, "C01:and_batch:<=and_ops");
    assert!(rb >= if total < 1000 { total } else { 1000 }, "C01:random_batch:>=min(total,1000)");
    assert!(ab >= if and_ops < 1000 { and_ops } else { 1000 }, "C01:and_batch:>=min(and_ops,1000)");
    // at most 9 chunks: 9*batch >= total
    assert!(total <= 9000 || rb * 9 >= total, "C01:random_batch:at-most-9-chunks");
    assert!(and_ops <= 9000 || ab * 9 >= and_ops, "C01:and_batch:at-most-9-chunks");
    // small totals are one single batch
    assert!(total > 1000 || rb == total, "C01:random_batch:single-batch-up-to-1000");
    assert!(and_ops > 1000 || ab == and_ops, "C01:and_batch:single-batch-up-to-1000");
    // the share request of gen_auth_bits cannot overflow
    let b = bucket_size(ab);
    assert!(ab.checked_mul(b).and_then(|v| v.checked_mul(3)).is_some(), "C01:and_batch:len*b*3-no-overflow");
    kani::cover!(ab > 1000 && ab < and_ops, "multi_batch_reachable");
    kani::cover!(and_ops == 1001 && ab == 1000, "boundary_1001_reachable");
}

/// chunk_size_iter for the (total, chunk) pairs the engine can pass: total < 2^40 and at most
/// 10 chunks (guaranteed by c01_batch_sizes: <= 9 full chunks + remainder).
#[kani::proof]
#[kani::unwind(13)]
fn c01_chunk_iter_wide() {
    let total: usize = kani::any();
    let chunk: usize = kani::any();
    kani::assume(total < (1 << 40));
    kani::assume(chunk > 0 && total / chunk <= 10);
    let mut n = 0usize;
    let mut sum = 0usize;
    let mut last = 0usize;
    let mut all_but_last_full = true;
    let mut in_range = true;
    for s in chunk_size_iter(total, chunk) {
        if n > 0 {
            all_but_last_full &= last == chunk;
        }
        in_range &= s >= 1 && s <= chunk;
        sum += s;
        last = s;
        n += 1;
    }
    assert!(sum == total, "C01:chunk_iter:sum==total");
    assert!(in_range, "C01:chunk_iter:sizes-in-1..=chunk");
    assert!(all_but_last_full, "C01:chunk_iter:all-but-last==chunk");
    assert!(n == total.div_ceil(chunk), "C01:chunk_iter:count==ceil");
    kani::cover!(n == 10 && last != chunk, "ten_chunks_with_remainder_reachable");
}

/// Producer/consumer agreement: the flush pattern used by init_and_shares, by the garbler's
/// gate streaming and by the evaluator's table shares ("push; if len >= batch {flush}" ...
/// "if !empty {flush}") emits exactly the sizes chunk_size_iter(total, batch) announces to the
/// receiving side, for the real and_share_batch_size. The three-line flush pattern is re-stated
/// here (it is inline in async code) - listed as an assumption; C01's segment harnesses check
/// the real loops for small sizes.
#[kani::proof]
#[kani::unwind(13)]
fn c01_flush_pattern_matches_chunk_iter() {
    let and_ops: usize = kani::any();
    kani::assume(and_ops < (1 << 40));
    let circ = header_circuit(1, 1, and_ops);
    let ch = NoChan;
    let ctx = ctx_for_counts(&ch, &circ);
    let batch = ctx.and_share_batch_size();
    // abstract producer: k-th flush happens when `batch` items accumulated, remainder at the end
    let mut it = chunk_size_iter(and_ops, batch);
    let full = if batch == 0 { 0 } else { and_ops / batch };
    let rem = if batch == 0 { 0 } else { and_ops % batch };
    let mut ok = true;
    let mut k = 0usize;
    while k < full {
        ok &= it.next() == Some(batch);
        k += 1;
    }
    if rem != 0 {
        ok &= it.next() == Some(rem);
    }
    ok &= it.next().is_none();
    assert!(ok, "C01:flush-pattern==chunk_size_iter(and_ops, and_share_batch_size)");
    kani::cover!(full == 8 && rem != 0, "eight_full_plus_remainder_reachable");
}

// =============================================================================================
// Segment harnesses: synchronous statement runs cut out of the async protocol functions on
// every run (runner/segments.py). What arrived in the preceding `.await` is arbitrary.
include!("/verif/harness/segs_protocol.rs");

fn sh2(bit: bool, m0: u128, k0: u128, m1: u128, k1: u128) -> Share {
    Share(bit, Auth(vec![(Mac(m0), Key(k0)), (Mac(m1), Key(k1))]))
}

fn any_share2() -> Share {
    sh2(kani::any(), kani::any(), kani::any(), kani::any(), kani::any())
}

fn any_opt_bool_mac() -> Option<(bool, Mac)> {
    if kani::any() {
        Some((kani::any(), Mac(kani::any())))
    } else {
        None
    }
}

fn any_opt_bool() -> Option<bool> {
    if kani::any() {
        Some(kani::any())
    } else {
        None
    }
}

fn out_circuit(o0: u32, o1: u32) -> Circuit {
    Circuit {
        input_regs: vec![1, 1],
        insts: vec![],
        max_reg_count: 2,
        // three output positions; the third repeats the first (non-adjacent duplicate) unless
        // o0 == o1, where all three name the same register
        output_regs: vec![Reg(o0), Reg(o1), Reg(o0)],
        and_ops: 0,
    }
}

/// C02/C03 - output opening at an output party (n = 2, own index 0, peer 1, two output
/// positions over two registers, duplicates allowed): whatever the peer sent as its
/// output-wire shares, Ok(bits) implies that for every output register the peer's share was
/// present, its MAC verified under the own key and global key, and the returned bit is
/// evaluator value ^ own share ^ peer share.
fn output_tail_n2(o0: u32, o1: u32, prop_own: u8) {
    let circ = out_circuit(o0, o1);
    let delta = Delta(kani::any());
    let own = [any_share2(), any_share2()];
    let own_bits = [own[0].0, own[1].0];
    let own_keys = [own[0].1 .0[1].1 .0, own[1].1 .0[1].1 .0];
    let peer = [any_opt_bool_mac(), any_opt_bool_mac()];
    let ev = [any_opt_bool(), any_opt_bool()];
    let p_out = [0usize];
    let [s0, s1] = own;
    let ch = NoChan;
    let ctx = mk_ctx(&ch, &circ, &NO_INPUTS, 1, 0, &p_out);
    let r = seg_output_tail(
        &ctx,
        &circ,
        0,
        2,
        &p_out,
        delta,
        vec![s0, s1],
        vec![vec![], vec![peer[0], peer[1]]],
        vec![ev[0], ev[1]],
    );
    let ok = r.is_ok();
    kani::cover!(ok, "output_ok_reachable");
    kani::cover!(!ok, "output_err_reachable");
    if let Ok(bits) = &r {
        pa!(prop_own, 2, bits.len() == 3, "C02:output:one-bit-per-output-position(duplicates-preserved)");
        let regs = [o0 as usize, o1 as usize, o0 as usize];
        let mut idx = 0;
        while idx < 3 {
            let w = regs[idx];
            pa!(prop_own, 2, ev[w].is_some(), "C02:output:evaluator-value-present");
            pa!(prop_own, 2, peer[w].is_some(), "C02:output:omitted-peer-share-not-accepted");
            if let (Some(v), Some((rb, mac))) = (ev[w], peer[w]) {
                pa!(prop_own, 3, mac.0 == own_keys[w] ^ (if rb { delta.0 } else { 0 }), "C03:output:peer-share-MAC-verified");
                pa!(prop_own, 2, bits.len() == 3 && bits[idx] == (v ^ own_bits[w] ^ rb), "C02:output:bit==value^own-share^peer-share");
            }
            idx += 1;
        }
    }
    // C01 direction (honest opening): valid, present peer shares and evaluator values are
    // accepted and give value ^ own share ^ peer share at every output position
    let mut honest = true;
    let mut w = 0;
    while w < 2 {
        let used = w == o0 as usize || w == o1 as usize;
        if used {
            honest &= ev[w].is_some();
            honest &= match peer[w] {
                Some((rb, mac)) => mac.0 == own_keys[w] ^ (if rb { delta.0 } else { 0 }),
                None => false,
            };
        }
        w += 1;
    }
    if honest {
        pa!(prop_own, 1, ok, "C01:output:honest-opening-accepted");
        if let Ok(bits) = &r {
            let regs = [o0 as usize, o1 as usize, o0 as usize];
            let mut good = bits.len() == 3;
            let mut idx = 0;
            while idx < 3 {
                if let (Some(v), Some((rb, _))) = (ev[regs[idx]], peer[regs[idx]]) {
                    good &= bits.len() == 3 && bits[idx] == (v ^ own_bits[regs[idx]] ^ rb);
                }
                idx += 1;
            }
            pa!(prop_own, 1, good, "C01:output:honest-opening-bits==value^own-share^peer-share(duplicates-preserved)");
        }
    }
    kani::cover!(honest, "honest_opening_reachable");
    std::mem::forget(r);
    std::mem::forget(circ);
}

macro_rules! output_tail_variant {
    ($name:ident, $o0:expr, $o1:expr, $own:expr) => {
        #[kani::proof]
        #[kani::unwind(6)]
        #[kani::stub(std::fmt::format, no_format)]
        fn $name() {
            output_tail_n2($o0, $o1, $own);
        }
    };
}
output_tail_variant!(c02_output_tail_n2_regs01, 0, 1, 2);
output_tail_variant!(c02_output_tail_n2_regs10, 1, 0, 2);
output_tail_variant!(c02_output_tail_n2_regs11, 1, 1, 2);
output_tail_variant!(c02_output_tail_n2_regs01__c03, 0, 1, 3);
output_tail_variant!(c02_output_tail_n2_regs11__c03, 1, 1, 3);
output_tail_variant!(c02_output_tail_n2_regs01__c01, 0, 1, 1);
output_tail_variant!(c02_output_tail_n2_regs11__c01, 1, 1, 1);

/// C05 (result side): a party outside the output set returns an empty vector from the opening.
#[kani::proof]
#[kani::unwind(6)]
#[kani::stub(std::fmt::format, no_format)]
fn c05_output_tail_non_output_party_gets_nothing() {
    let circ = out_circuit(0, 1);
    let p_out = [1usize];
    let ch = NoChan;
    let ctx = mk_ctx(&ch, &circ, &NO_INPUTS, 1, 0, &p_out);
    let r = seg_output_tail(
        &ctx,
        &circ,
        0,
        2,
        &p_out,
        Delta(kani::any()),
        vec![any_share2(), any_share2()],
        vec![],
        vec![any_opt_bool(), any_opt_bool()],
    );
    let empty = matches!(&r, Ok(v) if v.is_empty());
    assert!(empty, "C05:output:non-output-party-returns-empty-vector");
    kani::cover!(empty, "non_output_reachable");
    std::mem::forget(r);
    std::mem::forget(circ);
}

/// C03 - evaluator's revealed (value, label) pairs are checked against the own zero-label and
/// global key: Ok implies every output register carries Some((b, label0 ^ b*delta)).
fn output_label_check_n2(o0: u32, o1: u32, prop_own: u8) {
    let circ = out_circuit(o0, o1);
    let delta = Delta(kani::any());
    let l: [u128; 2] = kani::any();
    let wl: [Option<(bool, Label)>; 2] = [
        if kani::any() { Some((kani::any(), Label(kani::any()))) } else { None },
        if kani::any() { Some((kani::any(), Label(kani::any()))) } else { None },
    ];
    let ch = NoChan;
    let p_out_l = [0usize];
    let ctx = mk_ctx(&ch, &circ, &NO_INPUTS, 1, 0, &p_out_l);
    let r = seg_output_label_check(&ctx, &circ, delta, vec![Label(l[0]), Label(l[1])], vec![wl[0], wl[1]], vec![None, None]);
    let ok = r.is_ok();
    kani::cover!(ok, "label_check_ok_reachable");
    kani::cover!(!ok, "label_check_err_reachable");
    if let Ok(regs) = &r {
        let ws = [o0 as usize, o1 as usize];
        let mut idx = 0;
        while idx < 2 {
            let w = ws[idx];
            pa!(prop_own, 3, wl[w].is_some(), "C03:output-label:missing-value-not-accepted");
            if let Some((b, lab)) = wl[w] {
                pa!(prop_own, 3, lab.0 == l[w] ^ (if b { delta.0 } else { 0 }), "C03:output-label:label==label0^b*delta");
                pa!(prop_own, 3, regs[w] == Some(b), "C03:output-label:accepted-value-is-the-revealed-one");
                pa!(prop_own, 2, regs[w] == Some(b) && lab.0 == l[w] ^ (if b { delta.0 } else { 0 }), "C02:output:evaluator-value-accepted-only-together-with-its-own-label");
            }
            idx += 1;
        }
    }
    std::mem::forget(r);
    std::mem::forget(circ);
}

macro_rules! output_label_variant {
    ($name:ident, $o0:expr, $o1:expr, $own:expr) => {
        #[kani::proof]
        #[kani::unwind(6)]
        #[kani::stub(std::fmt::format, no_format)]
        fn $name() {
            output_label_check_n2($o0, $o1, $own);
        }
    };
}
output_label_variant!(c03_output_label_check_n2_regs01, 0, 1, 3);
output_label_variant!(c03_output_label_check_n2_regs11, 1, 1, 3);
output_label_variant!(c03_output_label_check_n2_regs01__c02, 0, 1, 2);
output_label_variant!(c03_output_label_check_n2_regs11__c02, 1, 1, 2);

fn ip_circuit(party0: u32, party1: u32, in0: u32, in1: u32) -> Circuit {
    Circuit {
        input_regs: vec![1, 1],
        insts: vec![
            Inst { out: Reg(0), op: Op::Input(Input { party: party0, input: in0 }) },
            Inst { out: Reg(1), op: Op::Input(Input { party: party1, input: in1 }) },
        ],
        max_reg_count: 2,
        output_regs: vec![Reg(0)],
        and_ops: 0,
    }
}

/// C03 - input sharing at the input owner (n = 2, own index 0): Ok implies that for every own
/// input wire the peer's mask share was present and its MAC verified, and the masked input is
/// input ^ own share ^ peer share; wires of the other party stay None.
#[kani::proof]
#[kani::unwind(6)]
#[kani::stub(std::fmt::format, no_format)]
fn c03_ip_mid_n2() {
    let party0: u32 = kani::any();
    let party1: u32 = kani::any();
    kani::assume(party0 < 2 && party1 < 2);
    let circ = ip_circuit(party0, party1, 0, if party0 == party1 { 1 } else { 0 });
    let delta = Delta(kani::any());
    let inputs: [bool; 2] = kani::any();
    let n_in = if party0 == 0 && party1 == 0 { 2 } else { 1 };
    let own = [any_share2(), any_share2()];
    let own_bits = [own[0].0, own[1].0];
    let own_keys = [own[0].1 .0[1].1 .0, own[1].1 .0[1].1 .0];
    let peer = [any_opt_bool_mac(), any_opt_bool_mac()];
    let [s0, s1] = own;
    let ch = NoChan;
    let ctx = mk_ctx(&ch, &circ, &inputs[..n_in], 1, 0, &NO_PARTIES);
    let r = seg_ip_mid(&ctx, &circ, &inputs[..n_in], 0, 2, delta, vec![s0, s1], vec![vec![], vec![peer[0], peer[1]]]);
    let ok = r.is_ok();
    kani::cover!(ok, "ip_mid_ok_reachable");
    kani::cover!(!ok, "ip_mid_err_reachable");
    if let Ok(masked) = &r {
        assert!(masked.len() == 2, "C03:input:masked-vector-has-max_reg_count-slots");
        let parties = [party0, party1];
        let mut w = 0;
        while w < 2 {
            if parties[w] == 0 {
                assert!(peer[w].is_some(), "C03:input:missing-peer-mask-share-not-accepted");
                if let Some((b, mac)) = peer[w] {
                    assert!(mac.0 == own_keys[w] ^ (if b { delta.0 } else { 0 }), "C03:input:peer-mask-share-MAC-verified");
                    let inp = if w == 1 && party0 == 0 { inputs[1] } else { inputs[0] };
                    assert!(masked[w] == Some(inp ^ own_bits[w] ^ b), "C03:input:masked==input^own-share^peer-share");
                }
            } else {
                assert!(masked[w].is_none(), "C03:input:no-masked-value-for-foreign-wire");
            }
            w += 1;
        }
    }
    std::mem::forget(r);
    std::mem::forget(circ);
}

/// C03 - ConflictingInputMask: after the verified broadcast a peer may fill only wires the
/// party did not fill itself; Ok implies the merged vector is the own entries plus the peer's
/// entries on disjoint positions.
#[kani::proof]
#[kani::unwind(6)]
#[kani::stub(std::fmt::format, no_format)]
fn c03_ip_post_n2() {
    let mine = [any_opt_bool(), any_opt_bool(), any_opt_bool()];
    let theirs = [any_opt_bool(), any_opt_bool(), any_opt_bool()];
    let ch = NoChan;
    let circ = Circuit { input_regs: vec![1, 1], insts: vec![], max_reg_count: 3, output_regs: vec![Reg(0)], and_ops: 0 };
    let ctx = mk_ctx(&ch, &circ, &NO_INPUTS, 1, 0, &NO_PARTIES);
    let r = seg_ip_post(&ctx, 0, 2, vec![mine[0], mine[1], mine[2]], vec![vec![], vec![theirs[0], theirs[1], theirs[2]]]);
    let ok = r.is_ok();
    kani::cover!(ok, "ip_post_ok_reachable");
    kani::cover!(!ok, "ip_post_err_reachable");
    if let Ok(m) = &r {
        let mut w = 0;
        while w < 3 {
            assert!(!(mine[w].is_some() && theirs[w].is_some()), "C03:input:peer-cannot-overwrite-own-masked-input");
            assert!(m[w] == if mine[w].is_some() { mine[w] } else { theirs[w] }, "C03:input:merged==own-or-peer");
            w += 1;
        }
    }
    std::mem::forget(r);
}

/// C05/C06 (send side of input sharing) + C18 (no panic on misplaced Input instructions):
/// mask shares of an input wire go to the wire's owner only, never to a third party and never
/// for non-input registers; arbitrary Input placement/party/index must not panic.
#[kani::proof]
#[kani::unwind(6)]
#[kani::stub(std::fmt::format, no_format)]
fn c05_ip_pre_n3() {
    // 3 parties, own index 1; 2 instructions of any opcode, Input ones with arbitrary party/index
    let insts = vec![any_inst(), any_inst()];
    let max_reg_count: usize = 3;
    kani::assume((insts[0].out.0 as usize) < max_reg_count && (insts[1].out.0 as usize) < max_reg_count);
    let mut num_inputs = 0usize;
    let mut owners: [Option<u32>; 3] = [None; 3];
    let mut k = 0;
    while k < 2 {
        if let Op::Input(Input { party, .. }) = insts[k].op {
            num_inputs += 1;
            // documented validity (Circuit::validate): an Input at position i writes register i
            kani::assume(insts[k].out.0 as usize == k);
            owners[k] = Some(party);
        }
        k += 1;
    }
    let circ = Circuit { input_regs: vec![1, 1, 1], insts, max_reg_count, output_regs: vec![Reg(0)], and_ops: 0 };
    // the engine hands over num_inputs := sum(input_regs) shares; the description may declare
    // fewer inputs than it has Input instructions (counters disagree): 1 or 2 shares
    let mk = || Share(kani::any(), Auth(vec![(Mac(kani::any()), Key(0)), (Mac(0), Key(0)), (Mac(kani::any()), Key(0))]));
    let shares = if kani::any() { vec![mk()] } else { vec![mk(), mk()] };
    let ch = NoChan;
    let ctx = mk_ctx(&ch, &circ, &NO_INPUTS, 0, 1, &NO_PARTIES);
    let r = seg_ip_pre(&ctx, &circ, 1, 3, shares);
    kani::cover!(r.is_ok() && num_inputs == 2, "ip_pre_ok_reachable");
    kani::cover!(r.is_err(), "ip_pre_err_reachable");
    if let Ok(w) = &r {
        assert!(w.len() == 3, "C05:input:one-message-slot-per-party");
        let mut p = 0;
        while p < 3 {
            let mut reg = 0;
            while reg < 3 {
                if w.len() == 3 && w[p].len() == 3 && w[p][reg].is_some() {
                    assert!(p != 1, "C05:input:no-share-addressed-to-self");
                    assert!(owners[reg] == Some(p as u32), "C05:input:mask-share-goes-to-the-input-owner-only");
                }
                reg += 1;
            }
            p += 1;
        }
    }
    std::mem::forget(r);
    std::mem::forget(circ);
}

// ------------------------------------------------------------------------------------------
// evaluate() AND arm + garble() row construction (n = 2: evaluator 0, garbler 1)

/// What the AEAD layer hands to evaluate(): set by the harness, returned by env_decrypt.
static mut ENV_DECRYPT: Option<Result<(bool, Vec<Mac>, Label), garble::Error>> = None;

/// Environment stand-in for garble::decrypt inside the cut segment: ChaCha20-Poly1305 is not
/// the subject (DESIGN §2 item 2); a garbler who knows the row key can make it return any
/// plaintext, a corrupted row makes it return Err.
#[allow(static_mut_refs)]
fn env_decrypt(_k: &GarblingKey, _bytes: &[u8]) -> Result<(bool, Vec<Mac>, Label), garble::Error> {
    unsafe { ENV_DECRYPT.take().expect("one decrypt per AND gate and garbler") }
}

/// Stand-in for the evaluator's per-garbler gate iterators (FileOrMemBuf::iter()): yields the
/// gates it was built with, never a decoding error (the file/bincode layer is outside the cut).
pub(crate) struct EnvGateIter(pub Option<GarbledGate>);
pub(crate) struct NoErr;
impl From<NoErr> for Error {
    fn from(_: NoErr) -> Self {
        Error::EmptyMsg
    }
}
impl Iterator for EnvGateIter {
    type Item = Result<GarbledGate, NoErr>;
    fn next(&mut self) -> Option<Self::Item> {
        self.0.take().map(Ok)
    }
}

fn any_macs_le2() -> Vec<Mac> {
    let l: u8 = kani::any();
    match l {
        0 => vec![],
        1 => vec![Mac(kani::any())],
        _ => vec![Mac(kani::any()), Mac(kani::any())],
    }
}

/// C03/C08 - evaluator, one AND gate: whatever the garbler's row decrypts to (any bit, any MAC
/// vector of length 0..=2, any label; or a decryption error), the arm never panics, and Ok
/// implies that the garbler's share carried a MAC that verifies under the evaluator's key
/// for the selected row; the masked output is own row bit ^ garbler bit and the garbler label
/// is label_share ^ own MAC.
fn evaluate_and_arm_n2(i: usize, prop_own: u8) {
    let delta = Delta(kani::any());
    let rows = [any_share2(), any_share2(), any_share2(), any_share2()];
    let own_bit = [rows[0].0, rows[1].0, rows[2].0, rows[3].0];
    let own_mac1 = [rows[0].1 .0[1].0 .0, rows[1].1 .0[1].0 .0, rows[2].1 .0[1].0 .0, rows[3].1 .0[1].0 .0];
    let key1 = [rows[0].1 .0[1].1 .0, rows[1].1 .0[1].1 .0, rows[2].1 .0[1].1 .0, rows[3].1 .0[1].1 .0];
    let dec_ok: bool = kani::any();
    let r: bool = kani::any();
    let macs = any_macs_le2();
    let mlen = macs.len();
    let m0 = if mlen > 0 { macs[0].0 } else { 0 };
    let ls: u128 = kani::any();
    unsafe {
        ENV_DECRYPT = Some(if dec_ok { Ok((r, macs, Label(ls))) } else { Err(garble::Error::DecryptionFailed) });
    }
    let lx = vec![Label(0), Label(kani::any())];
    let ly = vec![Label(0), Label(kani::any())];
    let gate = GarbledGate([vec![], vec![], vec![], vec![]]);
    let mut gg: Vec<EnvGateIter> = vec![EnvGateIter(None), EnvGateIter(Some(gate))];
    let ch = NoChan;
    let circ = Circuit { input_regs: vec![1, 1], insts: vec![], max_reg_count: 3, output_regs: vec![Reg(0)], and_ops: 1 };
    let ctx = mk_ctx(&ch, &circ, &NO_INPUTS, 0, 0, &NO_PARTIES);
    let res = seg_evaluate_and_arm(&ctx, 7, i, 0, 0, 2, delta, rows, &lx, &ly, &mut gg);
    let ok = res.is_ok();
    kani::cover!(ok, "and_arm_ok_reachable");
    kani::cover!(!ok, "and_arm_err_reachable");
    if let Ok((s, label)) = &res {
        pa!(prop_own, 3, dec_ok, "C03:evaluate:undecryptable-row-not-accepted");
        pa!(prop_own, 3, mlen >= 1, "C03:evaluate:row-share-without-MAC-not-accepted");
        pa!(prop_own, 3, m0 == key1[i] ^ (if r { delta.0 } else { 0 }), "C03:evaluate:row-share-MAC-verified-under-evaluator-key");
        pa!(prop_own, 1, *s == (own_bit[i] ^ r), "C01:evaluate:masked-output==own-row-bit^garbler-row-bit");
        pa!(prop_own, 1, label.len() == 2 && label[1].0 == ls ^ own_mac1[i], "C01:evaluate:garbler-label==label_share^own-MAC");
    }
    std::mem::forget(res);
    std::mem::forget((lx, ly, gg));
}

macro_rules! evaluate_and_arm_variant {
    ($name:ident, $i:expr, $own:expr) => {
        #[kani::proof]
        #[kani::unwind(6)]
        #[kani::stub(std::fmt::format, no_format)]
        fn $name() {
            evaluate_and_arm_n2($i, $own);
        }
    };
}
evaluate_and_arm_variant!(c03_evaluate_and_arm_n2_row0, 0, 3);
evaluate_and_arm_variant!(c03_evaluate_and_arm_n2_row1, 1, 3);
evaluate_and_arm_variant!(c03_evaluate_and_arm_n2_row2, 2, 3);
evaluate_and_arm_variant!(c03_evaluate_and_arm_n2_row3, 3, 3);
evaluate_and_arm_variant!(c03_evaluate_and_arm_n2_row0__c01, 0, 1);
evaluate_and_arm_variant!(c03_evaluate_and_arm_n2_row3__c01, 3, 1);

fn auth2(m: u128, k: u128, me: usize) -> Auth {
    // slot `me` is the own slot (zero), the other slot carries (mac, key) towards the peer
    if me == 0 {
        Auth(vec![(Mac(0), Key(0)), (Mac(m), Key(k))])
    } else {
        Auth(vec![(Mac(m), Key(k)), (Mac(0), Key(0))])
    }
}

/// C01/C10 - the authenticated garbled table of one AND gate, both sides (n = 2, evaluator 0,
/// garbler 1), composed with the evaluator's AND arm: for ALL authenticated shares of the input
/// masks lambda_x, lambda_y, the output mask lambda_gamma and the AND share sigma
/// (sigma = lambda_x & lambda_y), every row index i = 2a+b and every pair of global keys:
///  * garbler row i ^ evaluator row i == (a ^ lambda_x)(b ^ lambda_y) ^ lambda_gamma,
///  * both row shares carry valid MACs under the other side's key and global key
///    (including the xor_key(p_eval, delta) correction of row 3),
///  * if the evaluator decrypts the garbler's row i it accepts, obtains exactly that masked
///    output value and the garbler's label for it: label_gamma_0 ^ value * delta_garbler.
fn and_gate_table_n2(prop_own: u8) {
    let d_e: u128 = kani::any(); // evaluator's global key
    let d_g: u128 = kani::any(); // garbler's global key
    // components c: 0 = x, 1 = y, 2 = gamma, 3 = sigma
    let gb: [bool; 4] = [kani::any(), kani::any(), kani::any(), kani::any()]; // garbler bits
    let eb: [bool; 4] = [kani::any(), kani::any(), kani::any(), kani::any()]; // evaluator bits
    let gk: [u128; 4] = [kani::any(), kani::any(), kani::any(), kani::any()]; // garbler keys for evaluator's bits
    let ek: [u128; 4] = [kani::any(), kani::any(), kani::any(), kani::any()]; // evaluator keys for garbler's bits
    // MAC relation (representation invariant of preprocessing, C10)
    let gm = |c: usize| ek[c] ^ (if gb[c] { d_e } else { 0 });
    let em = |c: usize| gk[c] ^ (if eb[c] { d_g } else { 0 });
    // AND relation of the preprocessed AND share
    kani::assume((gb[3] ^ eb[3]) == ((gb[0] ^ eb[0]) & (gb[1] ^ eb[1])));
    let g_rows = seg_garbler_rows(0, Delta(d_g), gb[3], gb[2], gb[0], gb[1], auth2(gm(3), gk[3], 1), auth2(gm(2), gk[2], 1), auth2(gm(0), gk[0], 1), auth2(gm(1), gk[1], 1));
    let e_rows = seg_evaluator_rows(eb[3], eb[2], eb[0], eb[1], auth2(em(3), ek[3], 0), auth2(em(2), ek[2], 0), auth2(em(0), ek[0], 0), auth2(em(1), ek[1], 0));
    let l0: u128 = kani::any();
    let labels = seg_garbler_row_labels(Delta(d_g), Label(l0), &g_rows[0], &g_rows[1], &g_rows[2], &g_rows[3]);
    let lam_x = gb[0] ^ eb[0];
    let lam_y = gb[1] ^ eb[1];
    let lam_g = gb[2] ^ eb[2];
    let mut idx = 0;
    let mut bits_ok = true;
    let mut macs_ok = true;
    let mut labels_ok = true;
    while idx < 4 {
        let a = idx >= 2;
        let b = idx % 2 == 1;
        let z = ((a ^ lam_x) & (b ^ lam_y)) ^ lam_g;
        bits_ok &= (g_rows[idx].0 ^ e_rows[idx].0) == z;
        // garbler's MAC towards the evaluator (slot 0) under the evaluator's key (slot 1 of its row)
        macs_ok &= g_rows[idx].1 .0.len() == 2 && e_rows[idx].1 .0.len() == 2;
        if g_rows[idx].1 .0.len() == 2 && e_rows[idx].1 .0.len() == 2 {
            macs_ok &= g_rows[idx].1 .0[0].0 .0 == e_rows[idx].1 .0[1].1 .0 ^ (if g_rows[idx].0 { d_e } else { 0 });
            macs_ok &= e_rows[idx].1 .0[1].0 .0 == g_rows[idx].1 .0[0].1 .0 ^ (if e_rows[idx].0 { d_g } else { 0 });
            // what the evaluator reconstructs from the row label and its own MAC
            labels_ok &= (labels[idx].0 ^ e_rows[idx].1 .0[1].0 .0) == l0 ^ (if z { d_g } else { 0 });
        }
        idx += 1;
    }
    pa!(prop_own, 1, bits_ok, "C01:and-table:row_i==(a^lambda_x)(b^lambda_y)^lambda_gamma");
    pa!(prop_own, 10, macs_ok, "C10:and-table:row-shares-carry-valid-MACs(incl. row-3 key correction)");
    pa!(prop_own, 1, labels_ok, "C01:and-table:row-label^evaluator-MAC==label_gamma_0^value*delta");
    kani::cover!(lam_x && lam_y && g_rows[3].0, "and_table_nontrivial_reachable");
    std::mem::forget((g_rows, e_rows));
}

macro_rules! and_gate_table_variant {
    ($name:ident, $own:expr) => {
        #[kani::proof]
        #[kani::unwind(6)]
        #[kani::stub(std::fmt::format, no_format)]
        fn $name() {
            and_gate_table_n2($own);
        }
    };
}
and_gate_table_variant!(c01_and_gate_table_n2, 1);
and_gate_table_variant!(c01_and_gate_table_n2__c10, 10);


// ------------------------------------------------------------------------------------------
// C01 multi-batch: the real producer loops with the batch size as a live-in (so that batch
// boundaries are crossed with a handful of AND gates)

/// Stand-in for FileOrMemBuf::<Share>::iter(): yields `n` fixed two-party shares.
pub(crate) struct EnvShareIter(pub usize);
impl Iterator for EnvShareIter {
    type Item = Result<Share, NoErr>;
    fn next(&mut self) -> Option<Self::Item> {
        if self.0 == 0 {
            None
        } else {
            self.0 -= 1;
            Some(Ok(Share(false, Auth(vec![(Mac(0), Key(0)), (Mac(0), Key(0))]))))
        }
    }
}

fn env_encrypt(_k: &GarblingKey, _t: (bool, Vec<Mac>, Label)) -> Result<Vec<u8>, garble::Error> {
    Ok(Vec::new())
}

fn env_random() -> u128 {
    0
}

/// 2 inputs followed by `k` AND gates (register reuse: every AND writes register 2). Built from
/// literals (no Vec growth in the harness).
fn and_chain(k: usize) -> Circuit {
    let i0 = Inst { out: Reg(0), op: Op::Input(Input { party: 0, input: 0 }) };
    let i1 = Inst { out: Reg(1), op: Op::Input(Input { party: 1, input: 0 }) };
    let a = Inst { out: Reg(2), op: Op::And(And(Reg(0), Reg(1))) };
    let insts = match k {
        3 => vec![i0, i1, a, a, a],
        4 => vec![i0, i1, a, a, a, a],
        _ => vec![i0, i1, a, a, a, a, a],
    };
    Circuit { input_regs: vec![1, 1], insts, max_reg_count: 3, output_regs: vec![Reg(2)], and_ops: k }
}

fn chunk_sizes_match(got: &Vec<usize>, total: usize, batch: usize) -> bool {
    let mut it = chunk_size_iter(total, batch);
    let mut ok = true;
    let mut i = 0;
    while i < got.len() {
        ok &= it.next() == Some(got[i]);
        i += 1;
    }
    ok && it.next().is_none()
}

macro_rules! multi_batch {
    ($name_init:ident, $name_garble:ident, $k:expr, $b:expr, $unw:expr) => {
        /// init_and_shares(): the chunks written for gen_auth_bits have exactly the sizes
        /// chunk_size_iter(and_ops, batch) (what `chunks(batch)` of the in-memory variant
        /// yields), for batch size $b and $k AND gates.
        #[kani::proof]
        #[kani::unwind($unw)]
        #[kani::stub(std::fmt::format, no_format)]
        fn $name_init() {
            let batch: usize = $b;
            let circ = and_chain($k);
            let sh = || Share(kani::any(), Auth(vec![]));
            let r = seg_init_and_shares_loop(&circ, batch, EnvShareIter(2 + $k), vec![sh(), sh(), sh()]);
            let ok = r.is_ok();
            assert!(ok, "C01:init_and_shares:returns-Ok");
            if let Ok(ch) = &r {
                assert!(chunk_sizes_match(ch, $k, batch), "C01:init_and_shares:written-chunks==chunk_size_iter(and_ops,batch)");
                kani::cover!(ch.len() >= 2, "multi_chunk_reachable");
            }
            std::mem::forget(r);
            std::mem::forget(circ);
        }

        /// garble() (garbler side): the gate chunks sent to the evaluator have exactly the sizes
        /// chunk_size_iter(and_ops, batch) that the evaluator's receive loop expects.
        #[kani::proof]
        #[kani::unwind($unw)]
        #[kani::stub(std::fmt::format, no_format)]
        fn $name_garble() {
            let batch: usize = $b;
            let circ = and_chain($k);
            let sh = || Share(false, Auth(vec![(Mac(0), Key(0)), (Mac(0), Key(0))]));
            let r = seg_garbler_loop(&circ, 0, Delta(0), vec![sh(), sh(), sh()], vec![Label(0), Label(0), Label(0)], Vec::with_capacity(4), EnvShareIter(2 + $k), EnvShareIter($k), batch);
            let ok = r.is_ok();
            assert!(ok, "C01:garble:returns-Ok");
            if let Ok(ch) = &r {
                assert!(chunk_sizes_match(ch, $k, batch), "C01:garble:sent-gate-chunks==chunk_size_iter(and_ops,batch)");
                kani::cover!(ch.len() >= 2, "multi_chunk_reachable");
            }
            std::mem::forget(r);
            std::mem::forget(circ);
        }
    };
}
multi_batch!(c01_init_and_shares_chunks_k4_b2, c01_garbler_chunks_k4_b2, 4, 2, 7);
multi_batch!(c01_init_and_shares_chunks_k5_b2, c01_garbler_chunks_k5_b2, 5, 2, 8);
multi_batch!(c01_init_and_shares_chunks_k3_b1, c01_garbler_chunks_k3_b1, 3, 1, 6);
multi_batch!(c01_init_and_shares_chunks_k4_b3, c01_garbler_chunks_k4_b3, 4, 3, 7);
multi_batch!(c01_init_and_shares_chunks_k3_b2, c01_garbler_chunks_k3_b2, 3, 2, 6);

/// C07 - a garbler reveals exactly one label per input wire: label_0 ^ (masked bit * delta),
/// nothing for registers without a masked input; in particular never both labels of a wire
/// (their XOR is the global key) and never delta itself. The garbler holds one zero-label per
/// Input instruction (here two, registers 0 and 1 of three); a masked-input claim for register 2
/// - any peer can announce one - yields an error: neither a label nor (C08) a panic.
#[kani::proof]
#[kani::unwind(6)]
#[kani::stub(std::fmt::format, no_format)]
fn c07_ip_labels_one_label_per_wire() {
    let delta: u128 = kani::any();
    let l: [u128; 2] = [kani::any(), kani::any()];
    let m = [any_opt_bool(), any_opt_bool(), any_opt_bool()];
    let labels = [Label(l[0]), Label(l[1])];
    let ch = NoChan;
    let circ = Circuit { input_regs: vec![1, 1], insts: vec![], max_reg_count: 3, output_regs: vec![Reg(0)], and_ops: 0 };
    let ctx = mk_ctx(&ch, &circ, &NO_INPUTS, 0, 1, &NO_PARTIES);
    let r = seg_ip_labels(&ctx, Delta(delta), &labels, vec![m[0], m[1], m[2]]);
    let ok = r.is_ok();
    assert!(ok == m[2].is_none(), "C07:labels:a-claim-for-a-register-that-is-not-an-input-wire-is-refused-and-only-that");
    if let Ok(v) = &r {
        assert!(v.len() == 3, "C07:labels:one-slot-per-register");
        let mut w = 0;
        while w < 2 {
            if v.len() == 3 {
                match (m[w], v[w]) {
                    (None, None) => {}
                    (Some(b), Some(lab)) => {
                        assert!(lab.0 == l[w] ^ (if b { delta } else { 0 }), "C07:labels:sent-label==label0^masked-bit*delta");
                    }
                    _ => {
                        assert!(false, "C07:labels:label-sent-iff-masked-input-known");
                    }
                }
            }
            w += 1;
        }
        assert!(v.len() != 3 || v[2].is_none(), "C07:labels:nothing-is-sent-for-a-register-that-is-not-an-input-wire");
    }
    kani::cover!(ok && m[0] == Some(true) && m[1].is_none(), "labels_nontrivial_reachable");
    kani::cover!(!ok, "claim_for_non_input_register_reachable");
    std::mem::forget(r);
}

// ------------------------------------------------------------------------------------------
// C05: what is sent to whom in output()

/// C05 - output-wire shares message for one recipient: Some only for output registers, and
/// then exactly (own share bit, own MAC *towards that recipient*); recipients of the round are
/// the members of p_out other than the party itself, each exactly once.
#[kani::proof]
#[kani::unwind(6)]
#[kani::stub(std::fmt::format, no_format)]
fn c05_output_share_msg_n3() {
    // 3 parties, own index 0, 3 registers, output registers (2, 0, 2)
    let circ = Circuit { input_regs: vec![1, 1, 1], insts: vec![], max_reg_count: 3, output_regs: vec![Reg(2), Reg(0), Reg(2)], and_ops: 0 };
    let bits: [bool; 3] = [kani::any(), kani::any(), kani::any()];
    let m1: [u128; 3] = [kani::any(), kani::any(), kani::any()];
    let m2: [u128; 3] = [kani::any(), kani::any(), kani::any()];
    let sh = |w: usize| Share(bits[w], Auth(vec![(Mac(0), Key(0)), (Mac(m1[w]), Key(kani::any())), (Mac(m2[w]), Key(kani::any()))]));
    let shares = vec![sh(0), sh(1), sh(2)];
    let to: usize = if kani::any() { 1 } else { 2 };
    let ch = NoChan;
    let p_out_s = [1usize, 2usize];
    let ctx = mk_ctx(&ch, &circ, &NO_INPUTS, 1, 0, &p_out_s);
    let r = seg_output_share_msg(&ctx, &circ, &shares, to);
    let ok = r.is_ok();
    assert!(ok, "C05:output-shares:message-built");
    if let Ok(msg) = &r {
        assert!(msg.len() == 3, "C05:output-shares:one-slot-per-register");
        if msg.len() == 3 {
            assert!(msg[1].is_none(), "C05:output-shares:nothing-for-non-output-registers");
            let exp = |w: usize| Some((bits[w], Mac(if to == 1 { m1[w] } else { m2[w] })));
            assert!(msg[0] == exp(0) && msg[2] == exp(2), "C05:output-shares:payload==(own bit, own MAC towards the recipient)");
        }
    }
    kani::cover!(ok && to == 2, "share_msg_reachable");
    std::mem::forget(r);
    std::mem::forget((circ, shares));
}

fn recipients_ok(rec: &Vec<usize>, p_out: &[usize], p_own: usize) -> bool {
    // exactly the members of p_out other than p_own, in order, each once (p_out duplicate-free)
    let mut ok = true;
    let mut k = 0;
    let mut i = 0;
    while i < p_out.len() {
        if p_out[i] != p_own {
            ok &= k < rec.len() && rec[k] == p_out[i];
            k += 1;
        }
        i += 1;
    }
    ok && k == rec.len()
}

#[kani::proof]
#[kani::unwind(6)]
fn c05_output_recipients() {
    let p_out = any_vec_usize_le3();
    let p_own: usize = kani::any();
    let ch = NoChan;
    let circ = Circuit { input_regs: vec![1, 1, 1], insts: vec![], max_reg_count: 1, output_regs: vec![Reg(0)], and_ops: 0 };
    let ctx = mk_ctx(&ch, &circ, &NO_INPUTS, 0, p_own, &p_out);
    let r1 = seg_output_share_recipients(&ctx, &p_out, p_own);
    assert!(recipients_ok(&r1, &p_out, p_own), "C05:output-shares:recipients==p_out-without-self");
    let r2 = seg_output_lambda_recipients(&ctx, &p_out, p_own);
    assert!(recipients_ok(&r2, &p_out, p_own), "C05:lambda:recipients==p_out-without-self");
    kani::cover!(r1.len() == 2, "two_recipients_reachable");
    std::mem::forget((r1, r2, p_out));
}

/// C05 - evaluator's reveal message for one recipient: Some only for output registers, and then
/// (masked value, the label *of that recipient*).
#[kani::proof]
#[kani::unwind(6)]
#[kani::stub(std::fmt::format, no_format)]
fn c05_output_lambda_msg_n3() {
    let circ = Circuit { input_regs: vec![1, 1, 1], insts: vec![], max_reg_count: 3, output_regs: vec![Reg(2), Reg(0), Reg(2)], and_ops: 0 };
    let v: [bool; 3] = [kani::any(), kani::any(), kani::any()];
    let l1: [u128; 3] = [kani::any(), kani::any(), kani::any()];
    let l2: [u128; 3] = [kani::any(), kani::any(), kani::any()];
    let values = vec![v[0], v[1], v[2]];
    let le = |w: usize| vec![Label(0), Label(l1[w]), Label(l2[w])];
    let labels_eval = vec![le(0), le(1), le(2)];
    let to: usize = if kani::any() { 1 } else { 2 };
    let ch = NoChan;
    let p_out_s = [1usize, 2usize];
    let ctx = mk_ctx(&ch, &circ, &NO_INPUTS, 0, 0, &p_out_s);
    let r = seg_output_lambda_msg(&ctx, &circ, &values, &labels_eval, to);
    let ok = r.is_ok();
    assert!(ok, "C05:lambda:message-built");
    if let Ok(msg) = &r {
        assert!(msg.len() == 3, "C05:lambda:one-slot-per-register");
        if msg.len() == 3 {
            assert!(msg[1].is_none(), "C05:lambda:nothing-for-non-output-registers");
            let exp = |w: usize| Some((v[w], Label(if to == 1 { l1[w] } else { l2[w] })));
            assert!(msg[0] == exp(0) && msg[2] == exp(2), "C05:lambda:payload==(masked value, label of the recipient)");
        }
    }
    kani::cover!(ok && to == 1, "lambda_msg_reachable");
    std::mem::forget(r);
    std::mem::forget((circ, values, labels_eval));
}

// ------------------------------------------------------------------------------------------
// C18: everything _mpc() executes before its first await (i.e. before any message can be sent)

/// C18 - "before sending any message": the statements of _mpc() in front of its first `.await`,
/// cut from the source, already reject an invalid evaluator / own index / output set / input
/// length for an otherwise valid 2-party circuit (if validation were moved behind the
/// preprocessing this segment would return Ok for them).
#[kani::proof]
#[kani::unwind(5)]
#[kani::stub(std::fmt::format, no_format)]
fn c18_mpc_head_rejects_before_first_await() {
    let circ = Circuit {
        input_regs: vec![1, 1],
        insts: vec![
            Inst { out: Reg(0), op: Op::Input(Input { party: 0, input: 0 }) },
            Inst { out: Reg(1), op: Op::Input(Input { party: 1, input: 0 }) },
            Inst { out: Reg(2), op: Op::Xor(Xor(Reg(0), Reg(1))) },
        ],
        max_reg_count: 3,
        output_regs: vec![Reg(2)],
        and_ops: 0,
    };
    let inputs = any_vec_bool_le3();
    let p_out = any_vec_usize_le3();
    let p_eval: usize = kani::any();
    let p_own: usize = kani::any();
    let ch = NoChan;
    let ctx = Context::new(&ch, &circ, &inputs, Preprocessor::Untrusted, p_eval, p_own, &p_out, None);
    let r = seg_mpc_head(&ctx);
    let ok = r.is_ok();
    std::mem::forget(r);
    kani::cover!(ok, "head_ok_reachable");
    kani::cover!(!ok, "head_err_reachable");
    if ok {
        assert!(p_own < 2 && p_eval < 2, "C18:before-first-await:party-indices-checked");
        assert!(inputs.len() == 1, "C18:before-first-await:input-length-checked");
        let mut good = !p_out.is_empty();
        for p in p_out.iter() {
            good &= *p < 2;
        }
        assert!(good, "C18:before-first-await:output-set-checked");
    }
    std::mem::forget(circ);
}

// ------------------------------------------------------------------------------------------
// C09: which Option slots are Some does not depend on secret values (2-safety)

/// C09 - input sharing: the Some/None pattern of the per-party "wire shares" messages is the
/// same for any two sets of share values (it depends on the circuit and the own index only).
#[kani::proof]
#[kani::unwind(6)]
#[kani::stub(std::fmt::format, no_format)]
fn c09_ip_pre_pattern_independent_of_shares() {
    let party0: u32 = kani::any();
    let party1: u32 = kani::any();
    kani::assume(party0 < 3 && party1 < 3);
    let mk_circ = || Circuit {
        input_regs: vec![1, 1, 1],
        insts: vec![
            Inst { out: Reg(0), op: Op::Input(Input { party: party0, input: 0 }) },
            Inst { out: Reg(1), op: Op::Input(Input { party: party1, input: 0 }) },
        ],
        max_reg_count: 2,
        output_regs: vec![Reg(0)],
        and_ops: 0,
    };
    let c1 = mk_circ();
    let c2 = mk_circ();
    let mk = || Share(kani::any(), Auth(vec![(Mac(kani::any()), Key(0)), (Mac(kani::any()), Key(0)), (Mac(kani::any()), Key(0))]));
    let ch = NoChan;
    let ctx1 = mk_ctx(&ch, &c1, &NO_INPUTS, 0, 1, &NO_PARTIES);
    let ctx2 = mk_ctx(&ch, &c2, &NO_INPUTS, 0, 1, &NO_PARTIES);
    let a = seg_ip_pre(&ctx1, &c1, 1, 3, vec![mk(), mk()]);
    let b = seg_ip_pre(&ctx2, &c2, 1, 3, vec![mk(), mk()]);
    let both = a.is_ok() && b.is_ok();
    assert!(a.is_ok() == b.is_ok(), "C09:input-sharing:error-behaviour-independent-of-share-values");
    if let (Ok(a), Ok(b)) = (&a, &b) {
        let mut same = a.len() == b.len();
        let mut p = 0;
        while p < 3 {
            if a.len() == 3 && b.len() == 3 {
                same &= a[p].len() == b[p].len();
                let mut w = 0;
                while w < 2 {
                    if a[p].len() == 2 && b[p].len() == 2 {
                        same &= a[p][w].is_some() == b[p][w].is_some();
                    }
                    w += 1;
                }
            }
            p += 1;
        }
        assert!(same, "C09:input-sharing:Some-pattern-independent-of-share-values");
    }
    kani::cover!(both, "pattern_both_ok_reachable");
    std::mem::forget((a, b, c1, c2));
}

// ------------------------------------------------------------------------------------------
// n = 3: one AND gate end to end (two garblers 1, 2; evaluator 0), rows + labels + AND arm

static mut ENV_DECRYPT_ROWS: [(bool, [u128; 3], u128); 2] = [(false, [0; 3], 0); 2];
static mut ENV_DECRYPT_NEXT: usize = 0;

/// env_decrypt for the n = 3 composition: hands out the plaintexts of the two garblers' rows in
/// the order the evaluator asks for them (p = 1, then p = 2).
fn env_decrypt_n3(_k: &GarblingKey, _bytes: &[u8]) -> Result<(bool, Vec<Mac>, Label), garble::Error> {
    unsafe {
        let i = ENV_DECRYPT_NEXT;
        ENV_DECRYPT_NEXT += 1;
        if i == 0 {
            let (b, m, l) = ENV_DECRYPT_ROWS[0];
            let mut v = Vec::with_capacity(3);
            v.push(Mac(m[0]));
            v.push(Mac(m[1]));
            v.push(Mac(m[2]));
            Ok((b, v, Label(l)))
        } else if i == 1 {
            let (b, m, l) = ENV_DECRYPT_ROWS[1];
            let mut v = Vec::with_capacity(3);
            v.push(Mac(m[0]));
            v.push(Mac(m[1]));
            v.push(Mac(m[2]));
            Ok((b, v, Label(l)))
        } else {
            Err(garble::Error::DecryptionFailed)
        }
    }
}

fn and_gate_full_n3(row: usize) {
    // delta[p]; bit[p][c]; key[p][q][c] = p's key for q's bit of component c; mac derived.
    let delta: [u128; 3] = [kani::any(), kani::any(), kani::any()];
    let bit: [[bool; 4]; 3] = [
        [kani::any(), kani::any(), kani::any(), kani::any()],
        [kani::any(), kani::any(), kani::any(), kani::any()],
        [kani::any(), kani::any(), kani::any(), kani::any()],
    ];
    let k = || -> [u128; 4] { [kani::any(), kani::any(), kani::any(), kani::any()] };
    let z4 = [0u128; 4];
    let key: [[[u128; 4]; 3]; 3] = [[z4, k(), k()], [k(), z4, k()], [k(), k(), z4]];
    // mac of p towards q for component c: key[q][p][c] ^ bit[p][c] * delta[q]
    let mac = |p: usize, q: usize, c: usize| key[q][p][c] ^ (if bit[p][c] { delta[q] } else { 0 });
    let auth = |p: usize, c: usize| -> Auth {
        Auth(vec![
            (Mac(if p == 0 { 0 } else { mac(p, 0, c) }), Key(key[p][0][c])),
            (Mac(if p == 1 { 0 } else { mac(p, 1, c) }), Key(key[p][1][c])),
            (Mac(if p == 2 { 0 } else { mac(p, 2, c) }), Key(key[p][2][c])),
        ])
    };
    // components: 0 = x, 1 = y, 2 = gamma, 3 = sigma; AND relation of the preprocessed share
    let lam = |c: usize| bit[0][c] ^ bit[1][c] ^ bit[2][c];
    kani::assume(lam(3) == (lam(0) & lam(1)));
    let g1 = seg_garbler_rows(0, Delta(delta[1]), bit[1][3], bit[1][2], bit[1][0], bit[1][1], auth(1, 3), auth(1, 2), auth(1, 0), auth(1, 1));
    let g2 = seg_garbler_rows(0, Delta(delta[2]), bit[2][3], bit[2][2], bit[2][0], bit[2][1], auth(2, 3), auth(2, 2), auth(2, 0), auth(2, 1));
    let e = seg_evaluator_rows(bit[0][3], bit[0][2], bit[0][0], bit[0][1], auth(0, 3), auth(0, 2), auth(0, 0), auth(0, 1));
    let l0: [u128; 2] = [kani::any(), kani::any()];
    let lab1 = seg_garbler_row_labels(Delta(delta[1]), Label(l0[0]), &g1[0], &g1[1], &g1[2], &g1[3]);
    let lab2 = seg_garbler_row_labels(Delta(delta[2]), Label(l0[1]), &g2[0], &g2[1], &g2[2], &g2[3]);
    let a = row >= 2;
    let b = row % 2 == 1;
    let z = ((a ^ lam(0)) & (b ^ lam(1))) ^ lam(2);
    assert!((g1[row].0 ^ g2[row].0 ^ e[row].0) == z, "C01:and-table-n3:row_i==(a^lambda_x)(b^lambda_y)^lambda_gamma");
    unsafe {
        let m1 = [g1[row].1 .0[0].0 .0, g1[row].1 .0[1].0 .0, g1[row].1 .0[2].0 .0];
        let m2 = [g2[row].1 .0[0].0 .0, g2[row].1 .0[1].0 .0, g2[row].1 .0[2].0 .0];
        ENV_DECRYPT_ROWS = [(g1[row].0, m1, lab1[row].0), (g2[row].0, m2, lab2[row].0)];
        ENV_DECRYPT_NEXT = 0;
    }
    let lx = vec![Label(0), Label(kani::any()), Label(kani::any())];
    let ly = vec![Label(0), Label(kani::any()), Label(kani::any())];
    // non-empty rows: with empty `Vec<u8>`s inside Option<GarbledGate> Kani 0.68 reports a spurious
    // dealloc-layout failure on the second take() (reproduced in isolation; content is irrelevant
    // here because decrypt is environment)
    let gate = || GarbledGate([vec![0u8], vec![0u8], vec![0u8], vec![0u8]]);
    let mut gg: Vec<EnvGateIter> = vec![EnvGateIter(None), EnvGateIter(Some(gate())), EnvGateIter(Some(gate()))];
    let [e0, e1, e2, e3] = e;
    let ch = NoChan;
    let circ = Circuit { input_regs: vec![1, 1, 1], insts: vec![], max_reg_count: 3, output_regs: vec![Reg(0)], and_ops: 1 };
    let ctx = mk_ctx(&ch, &circ, &NO_INPUTS, 0, 0, &NO_PARTIES);
    let res = seg_evaluate_and_arm_n3(&ctx, 9, row, 0, 0, 3, Delta(delta[0]), [e0, e1, e2, e3], &lx, &ly, &mut gg);
    let ok = res.is_ok();
    assert!(ok, "C01:and-gate-n3:honest-rows-accepted-by-the-evaluator");
    if let Ok((s, label)) = &res {
        assert!(*s == z, "C01:and-gate-n3:evaluator-obtains-the-masked-AND-value");
        assert!(label.len() == 3, "C01:and-gate-n3:one-label-per-party");
        if label.len() == 3 {
            assert!(label[1].0 == l0[0] ^ (if z { delta[1] } else { 0 }), "C01:and-gate-n3:label-of-garbler-1==label0^value*delta");
            assert!(label[2].0 == l0[1] ^ (if z { delta[2] } else { 0 }), "C01:and-gate-n3:label-of-garbler-2==label0^value*delta");
        }
    }
    kani::cover!(ok && z, "and_gate_n3_nontrivial_reachable");
    std::mem::forget(res);
    std::mem::forget((g1, g2, lx, ly, gg));
}

macro_rules! and_gate_full_n3_variant {
    ($name:ident, $row:expr) => {
        #[kani::proof]
        #[kani::unwind(6)]
        #[kani::stub(std::fmt::format, no_format)]
        fn $name() {
            and_gate_full_n3($row);
        }
    };
}
and_gate_full_n3_variant!(c01_and_gate_full_n3_row0, 0);
and_gate_full_n3_variant!(c01_and_gate_full_n3_row1, 1);
and_gate_full_n3_variant!(c01_and_gate_full_n3_row2, 2);
and_gate_full_n3_variant!(c01_and_gate_full_n3_row3, 3);

// ------------------------------------------------------------------------------------------
// C07: garbler state set-up + loop (labels must come from their own random draws)

/// Stand-in for FileOrMemBuf::<Share> as far as garble() uses it: iter() yields `n` fixed shares.
pub(crate) struct EnvShareBuf(pub usize);
impl EnvShareBuf {
    pub(crate) fn iter(&mut self) -> std::io::Result<EnvShareIter> {
        Ok(EnvShareIter(self.0))
    }
}

static mut ENV_R: [u128; 4] = [0; 4];
static mut ENV_R_NEXT: usize = 0;

/// rand::random() as environment: the k-th call returns the k-th of four arbitrary values.
fn env_random_seq() -> u128 {
    unsafe {
        let k = ENV_R_NEXT;
        ENV_R_NEXT += 1;
        if k < 4 { ENV_R[k] } else { any_u128() }
    }
}

/// C07 - every input wire's zero-label is its own fresh random draw (two wires that share a
/// zero-label reveal label_0 and label_0 ^ delta as soon as their masked values differ, i.e.
/// the garbler's global key), and NOT offsets the label by delta.
#[kani::proof]
#[kani::unwind(6)]
#[kani::stub(std::fmt::format, no_format)]
fn c07_garble_input_labels_are_fresh_draws() {
    let circ = Circuit {
        input_regs: vec![1, 1],
        insts: vec![
            Inst { out: Reg(0), op: Op::Input(Input { party: 0, input: 0 }) },
            Inst { out: Reg(1), op: Op::Input(Input { party: 1, input: 0 }) },
            Inst { out: Reg(2), op: Op::Not(Not(Reg(1))) },
        ],
        max_reg_count: 3,
        output_regs: vec![Reg(2)],
        and_ops: 0,
    };
    let r: [u128; 4] = [kani::any(), kani::any(), kani::any(), kani::any()];
    unsafe {
        ENV_R = r;
        ENV_R_NEXT = 0;
    }
    let delta: u128 = kani::any();
    let ch = NoChan;
    let ctx = mk_ctx(&ch, &circ, &NO_INPUTS, 0, 1, &NO_PARTIES);
    let mut rs = EnvShareBuf(2);
    let res = seg_garble_garbler_full(&ctx, Delta(delta), &mut rs, EnvShareBuf(0));
    let ok = res.is_ok();
    assert!(ok, "C07:garble:returns-Ok");
    if let Ok((input_labels, labels, sent)) = &res {
        assert!(input_labels.len() == 2, "C07:garble:one-zero-label-per-input-wire");
        if input_labels.len() == 2 && labels.len() == 3 {
            assert!(input_labels[0].0 == r[0] && input_labels[1].0 == r[1], "C07:garble:each-input-zero-label-is-its-own-random-draw");
            assert!(labels[0].0 == r[0] && labels[1].0 == r[1], "C07:garble:wire-labels==input-labels");
            assert!(labels[2].0 == r[1] ^ delta, "C07:garble:NOT-offsets-the-zero-label-by-delta");
        }
        assert!(sent.is_empty(), "C07:garble:no-gate-chunk-without-AND-gates");
    }
    kani::cover!(ok, "garble_full_reachable");
    std::mem::forget(res);
    std::mem::forget(circ);
}

// ------------------------------------------------------------------------------------------
// C01: free XOR / NOT / register reuse - garbler's zero-labels vs. the evaluator's active labels

/// Stand-in for FileOrMemBuf::<[Share;4]>::iter(): no table shares (circuits without AND gates).
pub(crate) struct EnvTableIter;
impl Iterator for EnvTableIter {
    type Item = Result<[Share; 4], NoErr>;
    fn next(&mut self) -> Option<Self::Item> {
        None
    }
}

fn xor_not_circuit() -> Circuit {
    Circuit {
        input_regs: vec![1, 1],
        insts: vec![
            Inst { out: Reg(0), op: Op::Input(Input { party: 0, input: 0 }) },
            Inst { out: Reg(1), op: Op::Input(Input { party: 1, input: 0 }) },
            Inst { out: Reg(2), op: Op::Xor(Xor(Reg(0), Reg(1))) },
            Inst { out: Reg(0), op: Op::Not(Not(Reg(2))) }, // register reuse
        ],
        max_reg_count: 3,
        output_regs: vec![Reg(0), Reg(1)],
        and_ops: 0,
    }
}

/// C01/C07 - garbler side of free XOR / NOT with register reuse (state set-up + loop cut from
/// garble()): zero-labels are  L(in0)=r0, L(in1)=r1, L(xor)=r0^r1, L(not)=r0^r1^delta.
#[kani::proof]
#[kani::unwind(6)]
#[kani::stub(std::fmt::format, no_format)]
fn c01_free_xor_not_garbler_labels() {
    let circ = xor_not_circuit();
    let r: [u128; 4] = [kani::any(), kani::any(), kani::any(), kani::any()];
    unsafe {
        ENV_R = r;
        ENV_R_NEXT = 0;
    }
    let delta_g: u128 = kani::any();
    let ch = NoChan;
    let ctx_g = mk_ctx(&ch, &circ, &NO_INPUTS, 0, 1, &NO_PARTIES);
    let mut rs = EnvShareBuf(2);
    let g = seg_garble_garbler_full(&ctx_g, Delta(delta_g), &mut rs, EnvShareBuf(0));
    let okg = g.is_ok();
    assert!(okg, "C01:free-xor:garbler-Ok");
    if let Ok((input_labels, zero, _sent)) = &g {
        assert!(input_labels.len() == 2 && zero.len() == 3, "C01:free-xor:garbler-label-vectors");
        if input_labels.len() == 2 && zero.len() == 3 {
            assert!(input_labels[0].0 == r[0] && input_labels[1].0 == r[1], "C01:free-xor:input-zero-labels");
            assert!(zero[2].0 == r[0] ^ r[1], "C01:free-xor:zero-label-of-XOR==xor-of-zero-labels");
            assert!(zero[0].0 == r[0] ^ r[1] ^ delta_g, "C01:free-xor:zero-label-of-NOT==zero-label^delta(register-reuse)");
            assert!(zero[1].0 == r[1], "C01:free-xor:untouched-register-keeps-its-label");
        }
    }
    kani::cover!(okg, "free_xor_garbler_reachable");
    std::mem::forget(g);
    std::mem::forget(circ);
}

fn evaluator_labels(with_not: bool) {
    let i0 = Inst { out: Reg(0), op: Op::Input(Input { party: 0, input: 0 }) };
    let i1 = Inst { out: Reg(1), op: Op::Input(Input { party: 1, input: 0 }) };
    let third = if with_not { Inst { out: Reg(0), op: Op::Not(Not(Reg(1))) } } else { Inst { out: Reg(0), op: Op::Xor(Xor(Reg(0), Reg(1))) } };
    let circ = Circuit { input_regs: vec![1, 1], insts: vec![i0, i1, third], max_reg_count: 2, output_regs: vec![Reg(0)], and_ops: 0 };
    let l0: [u128; 2] = [kani::any(), kani::any()];
    let delta_g: u128 = kani::any();
    let m: [bool; 2] = [kani::any(), kani::any()];
    let act = |w: usize| Label(l0[w] ^ (if m[w] { delta_g } else { 0 }));
    let ch = NoChan;
    let ctx_e = mk_ctx(&ch, &circ, &NO_INPUTS, 0, 0, &NO_PARTIES);
    let e = seg_evaluate_loop(
        &ctx_e,
        Delta(kani::any()),
        vec![Some(m[0]), Some(m[1])],
        vec![Some(vec![Label(0), act(0)]), Some(vec![Label(0), act(1)])],
        vec![false, false],
        vec![Vec::new(), Vec::new()],
        vec![EnvGateIter(None), EnvGateIter(None)],
        EnvTableIter,
    );
    let oke = e.is_ok();
    assert!(oke, "C01:free-xor:evaluator-Ok");
    if let Ok((values, labels_eval)) = &e {
        // register 0 is overwritten (reuse): XOR(r0, r1) resp. NOT(r1)
        let (v0, z0) = if with_not { (!m[1], l0[1] ^ delta_g) } else { (m[0] ^ m[1], l0[0] ^ l0[1]) };
        let ok = values.len() == 2 && labels_eval.len() == 2 && values[0] == v0 && values[1] == m[1]
            && labels_eval[0].len() == 2 && labels_eval[1].len() == 2
            && labels_eval[0][1].0 == z0 ^ (if v0 { delta_g } else { 0 })
            && labels_eval[1][1].0 == l0[1] ^ (if m[1] { delta_g } else { 0 });
        assert!(ok, "C01:free-xor:active-label==zero-label^value*delta-at-every-register(and-values-as-evaluated)");
    }
    kani::cover!(oke, "free_xor_evaluator_reachable");
    std::mem::forget(e);
    std::mem::forget(circ);
}

/// C01 - evaluator side (loop cut from evaluate()), n = 2, Input/Input/XOR with register reuse:
/// values are the circuit on the masked inputs and the active label at every register is
/// zero-label ^ value*delta (zero-labels as established for the garbler above).
#[kani::proof]
#[kani::unwind(5)]
#[kani::stub(std::fmt::format, no_format)]
fn c01_free_xor_evaluator_labels() {
    evaluator_labels(false);
}

/// Same for Input/Input/NOT: NOT flips the masked value and keeps the active label.
#[kani::proof]
#[kani::unwind(5)]
#[kani::stub(std::fmt::format, no_format)]
fn c01_free_not_evaluator_labels() {
    evaluator_labels(true);
}

// ------------------------------------------------------------------------------------------
// n = 3 variants of the acceptance steps (own index 0, peers 1 and 2)

fn sh3(bit: bool, m1: u128, k1: u128, m2: u128, k2: u128) -> Share {
    Share(bit, Auth(vec![(Mac(0), Key(0)), (Mac(m1), Key(k1)), (Mac(m2), Key(k2))]))
}

/// C03 (n = 3) - input sharing at the input owner: Ok implies that BOTH peers' mask shares were
/// present and MAC-verified under the respective own key; masked == input ^ own ^ s1 ^ s2.
#[kani::proof]
#[kani::unwind(6)]
#[kani::stub(std::fmt::format, no_format)]
fn c03_ip_mid_n3() {
    let circ = Circuit {
        input_regs: vec![1, 1, 1],
        insts: vec![
            Inst { out: Reg(0), op: Op::Input(Input { party: 0, input: 0 }) },
            Inst { out: Reg(1), op: Op::Input(Input { party: 1, input: 0 }) },
        ],
        max_reg_count: 2,
        output_regs: vec![Reg(0)],
        and_ops: 0,
    };
    let delta = Delta(kani::any());
    let input: bool = kani::any();
    let inputs = [input];
    let k: [u128; 2] = [kani::any(), kani::any()];
    let own_bit: bool = kani::any();
    let own0 = sh3(own_bit, kani::any(), k[0], kani::any(), k[1]);
    let own1 = sh3(kani::any(), kani::any(), kani::any(), kani::any(), kani::any());
    let p1 = [any_opt_bool_mac(), any_opt_bool_mac()];
    let p2 = [any_opt_bool_mac(), any_opt_bool_mac()];
    let ch = NoChan;
    let ctx = mk_ctx(&ch, &circ, &inputs, 1, 0, &NO_PARTIES);
    let r = seg_ip_mid(&ctx, &circ, &inputs, 0, 3, delta, vec![own0, own1], vec![vec![], vec![p1[0], p1[1]], vec![p2[0], p2[1]]]);
    let ok = r.is_ok();
    kani::cover!(ok, "ip_mid_n3_ok_reachable");
    kani::cover!(!ok, "ip_mid_n3_err_reachable");
    if let Ok(masked) = &r {
        assert!(p1[0].is_some() && p2[0].is_some(), "C03:input-n3:missing-peer-mask-share-not-accepted");
        if let (Some((b1, m1)), Some((b2, m2))) = (p1[0], p2[0]) {
            assert!(m1.0 == k[0] ^ (if b1 { delta.0 } else { 0 }), "C03:input-n3:peer-1-share-MAC-verified");
            assert!(m2.0 == k[1] ^ (if b2 { delta.0 } else { 0 }), "C03:input-n3:peer-2-share-MAC-verified");
            assert!(masked.len() == 2 && masked[0] == Some(input ^ own_bit ^ b1 ^ b2) && masked[1].is_none(), "C03:input-n3:masked==input^all-mask-shares");
        }
    }
    std::mem::forget(r);
    std::mem::forget(circ);
}

/// C02/C03 (n = 3) - output opening: Ok implies both peers' shares present + MAC-verified for
/// every output register, bit == value ^ own ^ s1 ^ s2.
#[kani::proof]
#[kani::unwind(6)]
#[kani::stub(std::fmt::format, no_format)]
fn c02_output_tail_n3() {
    let circ = Circuit { input_regs: vec![1, 1, 1], insts: vec![], max_reg_count: 2, output_regs: vec![Reg(1), Reg(0)], and_ops: 0 };
    let delta = Delta(kani::any());
    let k1: [u128; 2] = [kani::any(), kani::any()];
    let k2: [u128; 2] = [kani::any(), kani::any()];
    let ob: [bool; 2] = [kani::any(), kani::any()];
    let s0 = sh3(ob[0], kani::any(), k1[0], kani::any(), k2[0]);
    let s1 = sh3(ob[1], kani::any(), k1[1], kani::any(), k2[1]);
    let p1 = [any_opt_bool_mac(), any_opt_bool_mac()];
    let p2 = [any_opt_bool_mac(), any_opt_bool_mac()];
    let ev = [any_opt_bool(), any_opt_bool()];
    let p_out = [0usize];
    let ch = NoChan;
    let ctx = mk_ctx(&ch, &circ, &NO_INPUTS, 1, 0, &p_out);
    let r = seg_output_tail(&ctx, &circ, 0, 3, &p_out, delta, vec![s0, s1], vec![vec![], vec![p1[0], p1[1]], vec![p2[0], p2[1]]], vec![ev[0], ev[1]]);
    let ok = r.is_ok();
    kani::cover!(ok, "output_n3_ok_reachable");
    kani::cover!(!ok, "output_n3_err_reachable");
    if let Ok(bits) = &r {
        let regs = [1usize, 0usize];
        let mut idx = 0;
        while idx < 2 {
            let w = regs[idx];
            assert!(ev[w].is_some() && p1[w].is_some() && p2[w].is_some(), "C02:output-n3:omitted-share-or-value-not-accepted");
            if let (Some(v), Some((b1, m1)), Some((b2, m2))) = (ev[w], p1[w], p2[w]) {
                assert!(m1.0 == k1[w] ^ (if b1 { delta.0 } else { 0 }) && m2.0 == k2[w] ^ (if b2 { delta.0 } else { 0 }), "C02:output-n3:peer-share-MACs-verified");
                assert!(bits.len() == 2 && bits[idx] == (v ^ ob[w] ^ b1 ^ b2), "C02:output-n3:bit==value^all-mask-shares");
            }
            idx += 1;
        }
    }
    std::mem::forget(r);
    std::mem::forget(circ);
}

// ------------------------------------------------------------------------------------------
// C06: the revealed input bit is masked by a mask that contains the party's own share, the own
// share of an own input wire is never put into an outgoing message, and the global key is a
// fresh draw (freshness across executions / uniformity are distributional and NOT claimed)

/// C06 - masked input == input ^ own mask share ^ every peer's mask share (n = 2): in particular
/// the own share - which the party does not send to anybody, see c06_own_input_share_not_sent -
/// is part of the mask.
#[kani::proof]
#[kani::unwind(6)]
#[kani::stub(std::fmt::format, no_format)]
fn c06_masked_input_contains_own_share() {
    let circ = ip_circuit(0, 1, 0, 0);
    let delta = Delta(kani::any());
    let input: bool = kani::any();
    let inputs = [input];
    let own = [any_share2(), any_share2()];
    let own_bit0 = own[0].0;
    let own_key0 = own[0].1 .0[1].1 .0;
    let pb: bool = kani::any();
    // an honest peer: valid MAC on its share of wire 0
    let peer0 = Some((pb, Mac(own_key0 ^ (if pb { delta.0 } else { 0 }))));
    let [s0, s1] = own;
    let ch = NoChan;
    let ctx = mk_ctx(&ch, &circ, &inputs, 1, 0, &NO_PARTIES);
    let r = seg_ip_mid(&ctx, &circ, &inputs, 0, 2, delta, vec![s0, s1], vec![vec![], vec![peer0, None]]);
    let ok = r.is_ok();
    assert!(ok, "C06:input:honest-peer-share-accepted");
    if let Ok(masked) = &r {
        assert!(masked.len() == 2 && masked[0] == Some(input ^ own_bit0 ^ pb), "C06:input:revealed-bit==input^own-mask-share^peer-mask-share");
        assert!(masked.len() == 2 && masked[1].is_none(), "C06:input:nothing-revealed-for-foreign-wires");
    }
    kani::cover!(ok, "masked_input_reachable");
    std::mem::forget(r);
    std::mem::forget(circ);
}

/// C06 - the party's own mask share of an own input wire appears in no outgoing "wire shares"
/// message (n = 3, own index 1, two input instructions with symbolic owners).
#[kani::proof]
#[kani::unwind(6)]
#[kani::stub(std::fmt::format, no_format)]
fn c06_own_input_share_not_sent() {
    let party0: u32 = kani::any();
    let party1: u32 = kani::any();
    kani::assume(party0 < 3 && party1 < 3);
    let circ = Circuit {
        input_regs: vec![1, 1, 1],
        insts: vec![
            Inst { out: Reg(0), op: Op::Input(Input { party: party0, input: 0 }) },
            Inst { out: Reg(1), op: Op::Input(Input { party: party1, input: 0 }) },
        ],
        max_reg_count: 2,
        output_regs: vec![Reg(0)],
        and_ops: 0,
    };
    let mk = || Share(kani::any(), Auth(vec![(Mac(kani::any()), Key(0)), (Mac(0), Key(0)), (Mac(kani::any()), Key(0))]));
    let ch = NoChan;
    let ctx = mk_ctx(&ch, &circ, &NO_INPUTS, 0, 1, &NO_PARTIES);
    let r = seg_ip_pre(&ctx, &circ, 1, 3, vec![mk(), mk()]);
    let ok = r.is_ok();
    assert!(ok, "C06:input:message-building-Ok");
    if let Ok(w) = &r {
        let owners = [party0, party1];
        let mut good = w.len() == 3;
        let mut p = 0;
        while p < 3 {
            let mut reg = 0;
            while reg < 2 {
                if w.len() == 3 && w[p].len() == 2 && owners[reg] == 1 {
                    good &= w[p][reg].is_none();
                }
                reg += 1;
            }
            p += 1;
        }
        assert!(good, "C06:input:own-share-of-an-own-input-wire-is-sent-to-nobody");
    }
    kani::cover!(ok && party0 == 1, "own_input_reachable");
    std::mem::forget(r);
    std::mem::forget(circ);
}

/// C06 - the global key is one fresh random draw (not a constant, not derived from anything).
#[kani::proof]
#[kani::unwind(6)]
fn c06_delta_is_a_random_draw() {
    let r: [u128; 4] = [kani::any(), kani::any(), kani::any(), kani::any()];
    unsafe {
        ENV_R = r;
        ENV_R_NEXT = 0;
    }
    let d = seg_delta_draw();
    assert!(d.0 == r[0] && unsafe { ENV_R_NEXT } == 1, "C06:delta==one-fresh-random-draw");
    kani::cover!(d.0 != 0, "delta_draw_reachable");
}
