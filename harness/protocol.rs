// Kani harnesses appended (as child module `__verif`) to src/mpc/protocol.rs of the scratch copy.
// A child module sees the private items of its parent: validate, Context, chunk_size_iter, ...
#![allow(unused_imports, dead_code, clippy::all)]
use super::*;
use garble_lang::register_circuit::{And, Circuit, Input, Inst, Not, Op, Reg, Xor};

include!("/verif/harness/common.rs");

/// A channel that is never used by the synchronous functions under check.
pub(crate) struct NoChan;
impl Channel for NoChan {
    type SendError = ();
    type RecvError = ();
    async fn send_bytes_to(&self, _p: usize, _d: Vec<u8>, _ph: &str) -> Result<(), ()> {
        Err(())
    }
    async fn recv_bytes_from(&self, _p: usize, _ph: &str) -> Result<Vec<u8>, ()> {
        Err(())
    }
}

fn any_reg() -> Reg {
    Reg(kani::any())
}

fn any_inst() -> Inst {
    let k: u8 = kani::any();
    let op = match k {
        0 => Op::Xor(Xor(any_reg(), any_reg())),
        1 => Op::And(And(any_reg(), any_reg())),
        2 => Op::Not(Not(any_reg())),
        _ => Op::Input(Input {
            party: kani::any(),
            input: kani::any(),
        }),
    };
    Inst { out: any_reg(), op }
}

fn any_insts_le3() -> Vec<Inst> {
    let l: u8 = kani::any();
    match l {
        0 => vec![],
        1 => vec![any_inst()],
        2 => vec![any_inst(), any_inst()],
        _ => vec![any_inst(), any_inst(), any_inst()],
    }
}

fn any_regs_le2() -> Vec<Reg> {
    let l: u8 = kani::any();
    match l {
        0 => vec![],
        1 => vec![any_reg()],
        _ => vec![any_reg(), any_reg()],
    }
}

/// Fully symbolic circuit *description*: nothing is assumed about consistency.
fn any_circuit_desc() -> Circuit {
    let input_regs = any_vec_usize_le3();
    // per-party input counts ≤ 2 so that `inputs.len()` can match (bound, DESIGN C18)
    for r in input_regs.iter() {
        kani::assume(*r <= 2);
    }
    let max_reg_count: usize = kani::any();
    kani::assume(max_reg_count <= 3);
    Circuit {
        input_regs,
        insts: any_insts_le3(),
        max_reg_count,
        output_regs: any_regs_le2(),
        and_ops: kani::any(),
    }
}

// ---------------------------------------------------------------- C18

/// C18 obligations 1+2 (DESIGN §3/C18): validate() never panics; Ok ⇒ all documented
/// argument conditions hold. One assertion per documented condition so that a failing
/// condition is identified by its CBMC property description.
#[kani::proof]
#[kani::unwind(5)]
#[kani::stub(std::fmt::format, no_format)]
fn c18_validate_ok_implies() {
    let circ = any_circuit_desc();
    let inputs = any_vec_bool_le3();
    let p_out = any_vec_usize_le3();
    let p_eval: usize = kani::any();
    let p_own: usize = kani::any();
    let ch = NoChan;
    let ctx = Context::new(
        &ch,
        &circ,
        &inputs,
        Preprocessor::Untrusted,
        p_eval,
        p_own,
        &p_out,
        None,
    );
    let r = validate(&ctx);
    let parties = circ.input_regs.len();
    let ok = r.is_ok();
    std::mem::forget(r); // error drop glue is not the subject
    kani::cover!(ok, "validate_ok_reachable");
    kani::cover!(!ok, "validate_err_reachable");
    if ok {
        assert!(p_own < parties, "C18:ok-implies:p_own<parties");
        assert!(p_eval < parties, "C18:ok-implies:p_eval<parties");
        assert!(!p_out.is_empty(), "C18:ok-implies:p_out-nonempty");
        let mut all_in = true;
        for p in p_out.iter() {
            all_in &= *p < parties;
        }
        assert!(all_in, "C18:ok-implies:p_out<parties");
        assert!(
            p_own < parties && inputs.len() == circ.input_regs[p_own],
            "C18:ok-implies:inputs.len"
        );
        let cv = circ.validate().is_ok();
        assert!(cv, "C18:ok-implies:circuit.validate");
    }
    std::mem::forget(circ);
}

// ---------------------------------------------------------------- C01 (batch / chunk agreement)

/// chunk_size_iter, small-value class: every total ≤ 40, chunk ≤ 12.
#[kani::proof]
#[kani::unwind(42)]
fn c01_chunk_iter_small() {
    let total: usize = kani::any();
    let chunk: usize = kani::any();
    kani::assume(total <= 40 && chunk <= 12);
    let mut n = 0usize;
    let mut sum = 0usize;
    let mut last = 0usize;
    let mut all_but_last_full = true;
    let mut in_range = true;
    for s in chunk_size_iter(total, chunk) {
        if n > 0 {
            all_but_last_full &= last == chunk;
        }
        in_range &= s >= 1 && s <= chunk;
        sum += s;
        last = s;
        n += 1;
    }
    if chunk == 0 {
        assert!(n == 0, "C01:chunk_iter:chunk0-yields-nothing");
    } else {
        assert!(sum == total, "C01:chunk_iter:sum==total");
        assert!(in_range, "C01:chunk_iter:sizes-in-1..=chunk");
        assert!(all_but_last_full, "C01:chunk_iter:all-but-last==chunk");
        assert!(n == total.div_ceil(chunk), "C01:chunk_iter:count==ceil");
    }
    kani::cover!(n == 4 && last != chunk, "chunk_iter_remainder_reachable");
}
