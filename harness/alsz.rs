// Kani harnesses appended (as child module `__verif`) to src/ot_core/alsz.rs.
#![allow(unused_imports, dead_code, clippy::all)]
use super::*;

include!("/verif/harness/common.rs");

macro_rules! pack_roundtrip {
    ($name:ident, $len:expr) => {
        /// boolvec_to_u8vec / u8vec_to_boolvec for one length: output length ceil(len/8),
        /// bit i of the packing is choice i (LSB first), padding bits are 0, and unpacking
        /// returns the choices followed by false padding.
        #[kani::proof]
        #[kani::unwind(68)]
        fn $name() {
            const L: usize = $len;
            let bv: [bool; L] = kani::any();
            let packed = boolvec_to_u8vec(&bv[..]);
            assert!(packed.len() == (L + 7) / 8, "C11:pack:len==ceil(len/8)");
            let mut ok = true;
            let mut i = 0;
            while i < packed.len() * 8 {
                let bit = (packed[i / 8] >> (i % 8)) & 1 == 1;
                ok &= bit == if i < L { bv[i] } else { false };
                i += 1;
            }
            assert!(ok, "C11:pack:bit-i==choice-i,padding-zero");
            let un = u8vec_to_boolvec(&packed);
            assert!(un.len() == packed.len() * 8, "C11:unpack:len==8*bytes");
            let mut ok2 = true;
            let mut i = 0;
            while i < un.len() {
                ok2 &= un[i] == if i < L { bv[i] } else { false };
                i += 1;
            }
            assert!(ok2, "C11:unpack(pack(v))==v-then-false-padding");
            kani::cover!(L == 0 || bv[L - 1], "pack_last_bit_reachable");
            std::mem::forget((packed, un));
        }
    };
}
pack_roundtrip!(c11_pack_roundtrip_0, 0);
pack_roundtrip!(c11_pack_roundtrip_1, 1);
pack_roundtrip!(c11_pack_roundtrip_7, 7);
pack_roundtrip!(c11_pack_roundtrip_8, 8);
pack_roundtrip!(c11_pack_roundtrip_9, 9);
pack_roundtrip!(c11_pack_roundtrip_15, 15);
pack_roundtrip!(c11_pack_roundtrip_16, 16);
pack_roundtrip!(c11_pack_roundtrip_17, 17);
pack_roundtrip!(c11_pack_roundtrip_31, 31);
pack_roundtrip!(c11_pack_roundtrip_33, 33);
pack_roundtrip!(c11_pack_roundtrip_63, 63);
pack_roundtrip!(c11_pack_roundtrip_64, 64);
