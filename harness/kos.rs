// Kani harnesses appended (as child module `__verif`) to src/ot_core/kos.rs.
#![allow(unused_imports, dead_code, clippy::all)]
use super::*;

include!("/verif/harness/common.rs");
include!("/verif/harness/segs_kos.rs");

static mut ENV_CLMUL: (u128, u128) = (0, 0);

/// Environment stand-in for Block::clmul inside the cut segment (the product itself is decided
/// under C20): returns the value chosen by the harness.
trait EnvClmul {
    fn env_clmul(&self, rhs: &Self) -> (Block, Block);
}
impl EnvClmul for Block {
    fn env_clmul(&self, _rhs: &Self) -> (Block, Block) {
        let (lo, hi) = unsafe { ENV_CLMUL };
        (Block::from(lo), Block::from(hi))
    }
}

/// C04 - KOS correlation check at the sender: Ok implies check ^ (x * s) == (t0, t1).
#[kani::proof]
#[kani::unwind(4)]
#[kani::stub(std::fmt::format, no_format)]
fn c04_kos_check() {
    let c: [u128; 2] = [kani::any(), kani::any()];
    let p: [u128; 2] = [kani::any(), kani::any()];
    let t: [u128; 2] = [kani::any(), kani::any()];
    unsafe {
        ENV_CLMUL = (p[0], p[1]);
    }
    let r = seg_kos_check(Vec::new(), (Block::from(c[0]), Block::from(c[1])), Block::from(any_u128()), Block::from(t[0]), Block::from(t[1]), Block::from(any_u128()));
    let ok = r.is_ok();
    kani::cover!(ok, "kos_ok_reachable");
    kani::cover!(!ok, "kos_err_reachable");
    if ok {
        assert!(c[0] ^ p[0] == t[0] && c[1] ^ p[1] == t[1], "C04:kos:Ok-implies-check^x*s==(t0,t1)");
    }
    std::mem::forget(r);
}

// ------------------------------------------------------------------------------------------
// C11: correlated OT, output stage of sender and receiver composed (hash = arbitrary function)

/// The tweakable hash as an arbitrary *function* on the points the two sides evaluate it at:
/// per index j the two points q_j and q_j ^ s (chosen values HA[j], HB[j]); anything else is
/// unconstrained. (AES itself is outside the technique's reach, DESIGN §2.)
static mut ENV_Q: [u128; 3] = [0; 3];
static mut ENV_S: u128 = 0;
static mut ENV_HA: [u128; 3] = [0; 3];
static mut ENV_HB: [u128; 3] = [0; 3];

fn env_tccr(tweak: Block, x: Block) -> Block {
    let j = u128::from(tweak) as usize;
    let xv = u128::from(x);
    unsafe {
        if j < 3 && xv == ENV_Q[j] {
            Block::from(ENV_HA[j])
        } else if j < 3 && xv == ENV_Q[j] ^ ENV_S {
            Block::from(ENV_HB[j])
        } else {
            Block::from(any_u128())
        }
    }
}

fn bytes_of(v: &[u128]) -> Vec<u8> {
    // 3 x 16 bytes, block j = native byte order of v[j] (what Block::from([u8;16]) reads back)
    let a = v[0].to_ne_bytes();
    let b = v[1].to_ne_bytes();
    let c = v[2].to_ne_bytes();
    vec![
        a[0], a[1], a[2], a[3], a[4], a[5], a[6], a[7], a[8], a[9], a[10], a[11], a[12], a[13], a[14], a[15],
        b[0], b[1], b[2], b[3], b[4], b[5], b[6], b[7], b[8], b[9], b[10], b[11], b[12], b[13], b[14], b[15],
        c[0], c[1], c[2], c[3], c[4], c[5], c[6], c[7], c[8], c[9], c[10], c[11], c[12], c[13], c[14], c[15],
    ]
}

/// C11 - correlated OT, 3 transfers: given the ALSZ correlation of the transposed matrices
/// (t_j = q_j ^ choice_j * s, assumed: it comes out of base OT + transposition), the sender's
/// output loop and the receiver's output loop - cut from send_correlated / recv_correlated -
/// give the receiver exactly x0_j ^ (choice_j & delta_j) at every index, x1_j = x0_j ^ delta_j,
/// and both sides return vectors of the requested length.
#[kani::proof]
#[kani::unwind(5)]
#[kani::stub(std::fmt::format, no_format)]
fn c11_kos_correlated_output_stage() {
    let s: u128 = kani::any();
    let q: [u128; 3] = [kani::any(), kani::any(), kani::any()];
    let b: [bool; 3] = [kani::any(), kani::any(), kani::any()];
    let d: [u128; 3] = [kani::any(), kani::any(), kani::any()];
    let t = [q[0] ^ (if b[0] { s } else { 0 }), q[1] ^ (if b[1] { s } else { 0 }), q[2] ^ (if b[2] { s } else { 0 })];
    unsafe {
        ENV_S = s;
        ENV_Q = q;
        ENV_HA = [kani::any(), kani::any(), kani::any()];
        ENV_HB = [kani::any(), kani::any(), kani::any()];
    }
    let deltas = [Block::from(d[0]), Block::from(d[1]), Block::from(d[2])];
    let snd = seg_kos_send_corr(&deltas, bytes_of(&q), 3, Block::from(s));
    let ok_s = snd.is_ok();
    assert!(ok_s, "C11:kos:sender-output-stage-Ok");
    if let Ok((out, ys)) = snd {
        assert!(out.len() == 3 && ys.len() == 3, "C11:kos:sender-returns-requested-length");
        if out.len() == 3 && ys.len() == 3 {
            let y3 = vec![ys[0], ys[1], ys[2]];
            let rcv = seg_kos_recv_corr(&b, bytes_of(&t), y3, Vec::with_capacity(3));
            let ok_r = rcv.is_ok();
            assert!(ok_r, "C11:kos:receiver-output-stage-Ok");
            if let Ok(r) = rcv {
                assert!(r.len() == 3, "C11:kos:receiver-returns-requested-length");
                let mut j = 0;
                while j < 3 {
                    let x0 = u128::from(out[j].0);
                    let x1 = u128::from(out[j].1);
                    assert!(x1 == x0 ^ d[j], "C11:kos:x1==x0^delta");
                    if r.len() == 3 {
                        assert!(u128::from(r[j]) == x0 ^ (if b[j] { d[j] } else { 0 }), "C11:kos:received==x0^(choice&delta)");
                    }
                    j += 1;
                }
                std::mem::forget(r);
            }
        }
        std::mem::forget((out, ys));
    }
    kani::cover!(ok_s && b[1] && s != 0, "kos_corr_nontrivial_reachable");
}
