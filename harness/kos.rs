// Kani harnesses appended (as child module `__verif`) to src/ot_core/kos.rs.
#![allow(unused_imports, dead_code, clippy::all)]
use super::*;

include!("/verif/harness/common.rs");
include!("/verif/harness/segs_kos.rs");

static mut ENV_CLMUL: (u128, u128) = (0, 0);

/// Environment stand-in for Block::clmul inside the cut segment (the product itself is decided
/// under C20): returns the value chosen by the harness.
trait EnvClmul {
    fn env_clmul(&self, rhs: &Self) -> (Block, Block);
}
impl EnvClmul for Block {
    fn env_clmul(&self, _rhs: &Self) -> (Block, Block) {
        let (lo, hi) = unsafe { ENV_CLMUL };
        (Block::from(lo), Block::from(hi))
    }
}

/// C04 - KOS correlation check at the sender: Ok implies check ^ (x * s) == (t0, t1).
#[kani::proof]
#[kani::unwind(4)]
#[kani::stub(std::fmt::format, no_format)]
fn c04_kos_check() {
    let c: [u128; 2] = [kani::any(), kani::any()];
    let p: [u128; 2] = [kani::any(), kani::any()];
    let t: [u128; 2] = [kani::any(), kani::any()];
    unsafe {
        ENV_CLMUL = (p[0], p[1]);
    }
    let r = seg_kos_check(Vec::new(), (Block::from(c[0]), Block::from(c[1])), Block::from(any_u128()), Block::from(t[0]), Block::from(t[1]), Block::from(any_u128()));
    let ok = r.is_ok();
    kani::cover!(ok, "kos_ok_reachable");
    kani::cover!(!ok, "kos_err_reachable");
    if ok {
        assert!(c[0] ^ p[0] == t[0] && c[1] ^ p[1] == t[1], "C04:kos:Ok-implies-check^x*s==(t0,t1)");
    }
    std::mem::forget(r);
}
