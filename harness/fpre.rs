// Kani harnesses appended (as child module `__verif`) to src/mpc/fpre.rs (trusted dealer).
#![allow(unused_imports, dead_code, clippy::all)]
use super::*;

include!("/verif/harness/common.rs");

/// `random()` inside the cut: an arbitrary value per call (the dealer's coins are unconstrained).
fn env_random<T: kani::Arbitrary>() -> T {
    kani::any()
}

include!("/verif/harness/segs_fpre.rs");

fn bit_share(b: bool) -> Share {
    Share(b, Auth(vec![]))
}

macro_rules! and_plain {
    ($name:ident, $n:expr, [$($i:expr),*]) => {
        /// C10 - the dealer's plain AND value: c = (XOR of all parties' a_i) & (XOR of all b_i).
        #[kani::proof]
        #[kani::unwind(8)]
        #[kani::stub(std::fmt::format, no_format)]
        fn $name() {
            let a: [bool; $n] = kani::any();
            let b: [bool; $n] = kani::any();
            let share = vec![$((bit_share(a[$i]), bit_share(b[$i]))),*];
            let c = seg_fpre_and_plain(share);
            let mut xa = false;
            let mut xb = false;
            $( xa ^= a[$i]; xb ^= b[$i]; )*
            assert!(c == (xa & xb), "C10:fpre:dealer-and-value-is-the-and-of-the-reconstructed-inputs");
            kani::cover!(c, "c_true_reachable");
        }
    };
}
and_plain!(c10_fpre_and_plain_n2, 2, [0, 1]);
and_plain!(c10_fpre_and_plain_n3, 3, [0, 1, 2]);
and_plain!(c10_fpre_and_plain_n4, 4, [0, 1, 2, 3]);
and_plain!(c10_fpre_and_plain_n5, 5, [0, 1, 2, 3, 4]);

fn deal(parties: usize, deltas: Vec<Delta>, mut out: Vec<Vec<Share>>) {
    let c: bool = kani::any();
    seg_fpre_and_deal(c, parties, &deltas, &mut out);
    let mut x = false;
    for i in 0..parties {
        let Share(bit, Auth(mk)) = &out[i][0];
        x ^= *bit;
        for j in 0..parties {
            if i != j {
                let Share(_, Auth(mk_j)) = &out[j][0];
                // MAC of party i's bit under party j's key for i
                assert!(mk[j].0 == mk_j[i].1 ^ (*bit & deltas[j]), "C10:fpre:dealt-and-share-mac-relation");
            }
        }
    }
    assert!(x == c, "C10:fpre:dealt-and-shares-xor-to-c");
    kani::cover!(c, "c_true_reachable");
    std::mem::forget((deltas, out));
}

#[kani::proof]
#[kani::unwind(4)]
#[kani::stub(std::fmt::format, no_format)]
fn c10_fpre_and_deal_n2() {
    deal(2, vec![Delta(kani::any()), Delta(kani::any())], vec![vec![], vec![]]);
}

#[kani::proof]
#[kani::unwind(5)]
#[kani::stub(std::fmt::format, no_format)]
fn c10_fpre_and_deal_n3() {
    deal(3, vec![Delta(kani::any()), Delta(kani::any()), Delta(kani::any())], vec![vec![], vec![], vec![]]);
}

fn deal_random(parties: usize, deltas: Vec<Delta>, mut out: Vec<Vec<Share>>) {
    seg_fpre_random_deal(parties, &deltas, &mut out);
    for i in 0..parties {
        let Share(bit, Auth(mk)) = &out[i][0];
        assert!(mk.len() == parties, "C10:fpre:dealt-share-has-one-mac-key-slot-per-party");
        for j in 0..parties {
            if i != j {
                let Share(_, Auth(mk_j)) = &out[j][0];
                assert!(mk[j].0 == mk_j[i].1 ^ (*bit & deltas[j]), "C10:fpre:dealt-random-share-mac-relation");
            }
        }
    }
    kani::cover!(true, "reachable");
    std::mem::forget((deltas, out));
}

#[kani::proof]
#[kani::unwind(4)]
#[kani::stub(std::fmt::format, no_format)]
fn c10_fpre_random_deal_n2() {
    deal_random(2, vec![Delta(kani::any()), Delta(kani::any())], vec![vec![], vec![]]);
}

#[kani::proof]
#[kani::unwind(5)]
#[kani::stub(std::fmt::format, no_format)]
fn c10_fpre_random_deal_n3() {
    deal_random(3, vec![Delta(kani::any()), Delta(kani::any()), Delta(kani::any())], vec![vec![], vec![], vec![]]);
}

fn any_share2() -> Share {
    Share(kani::any(), Auth(vec![(Mac(kani::any()), Key(kani::any())), (Mac(kani::any()), Key(kani::any()))]))
}

/// C04 - the dealer accepts submitted AND-gate input shares only if every non-zero MAC a party
/// holds matches the key the other party submitted for it (n = 2, one gate).
#[kani::proof]
#[kani::unwind(4)]
#[kani::stub(std::fmt::format, no_format)]
fn c04_fpre_dealer_detects_inconsistent_shares_n2() {
    let deltas = vec![Delta(kani::any()), Delta(kani::any())];
    let shares = vec![vec![(any_share2(), any_share2()), (any_share2(), any_share2())]];
    let cheated = seg_fpre_cheat_check(&shares, &deltas);
    if !cheated {
        let (a0, b0) = &shares[0][0];
        let (a1, b1) = &shares[0][1];
        let Share(a0b, Auth(a0m)) = a0;
        let Share(a1b, Auth(a1m)) = a1;
        let Share(b0b, Auth(b0m)) = b0;
        let Share(b1b, Auth(b1m)) = b1;
        assert!(a0m[1].0 == Mac(0) || a0m[1].0 == a1m[0].1 ^ (*a0b & deltas[1]), "C04:fpre:accepted-left-share-of-party-0-verifies");
        assert!(a1m[0].0 == Mac(0) || a1m[0].0 == a0m[1].1 ^ (*a1b & deltas[0]), "C04:fpre:accepted-left-share-of-party-1-verifies");
        assert!(b0m[1].0 == Mac(0) || b0m[1].0 == b1m[0].1 ^ (*b0b & deltas[1]), "C04:fpre:accepted-right-share-of-party-0-verifies");
        assert!(b1m[0].0 == Mac(0) || b1m[0].0 == b0m[1].1 ^ (*b1b & deltas[0]), "C04:fpre:accepted-right-share-of-party-1-verifies");
    }
    kani::cover!(!cheated, "accept_reachable");
    kani::cover!(cheated, "reject_reachable");
    std::mem::forget((deltas, shares));
}
