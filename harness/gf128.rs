// Kani harnesses appended (as child module `__verif`) to src/block/gf128.rs.
#![allow(unused_imports, dead_code, clippy::all)]
use super::*;

include!("/verif/harness/common.rs");

/// Schoolbook GF(2)[x] product of two 64-bit polynomials (the definition).
fn ref_clmul64(x: u64, y: u64) -> u128 {
    let mut r = 0u128;
    let mut i = 0;
    while i < 64 {
        if (x >> i) & 1 == 1 {
            r ^= (y as u128) << i;
        }
        i += 1;
    }
    r
}

/// Schoolbook 128x128 -> (low, high).
fn ref_clmul128(a: u128, b: u128) -> (u128, u128) {
    let mut lo = 0u128;
    let mut hi = 0u128;
    let mut i = 0u32;
    while i < 128 {
        if (a >> i) & 1 == 1 {
            lo ^= b << i;
            if i > 0 {
                hi ^= b >> (128 - i);
            }
        }
        i += 1;
    }
    (lo, hi)
}

/// Bit-serial reduction of a 256-bit polynomial modulo x^128 + x^7 + x^2 + x + 1.
fn ref_reduce(low: u128, high: u128) -> u128 {
    let mut lo = low;
    let mut hi = high;
    let mut i: i32 = 127;
    while i >= 0 {
        if (hi >> i) & 1 == 1 {
            // x^(128+i) = x^i * (x^7+x^2+x+1)
            hi ^= 1u128 << i;
            let p: u128 = 0x87;
            lo ^= p << i;
            if i > 0 {
                let spill = if i as u32 > 120 { p >> (128 - i as u32) } else { 0 };
                hi ^= spill;
            }
        }
        i -= 1;
    }
    lo
}

#[kani::proof]
#[kani::unwind(130)]
fn c20_gf128_reduce_eq_bitserial() {
    let low: u128 = kani::any();
    let high: u128 = kani::any();
    assert!(scalar::gf128_reduce(low, high) == ref_reduce(low, high), "C20:gf128_reduce==bit-serial-reduction-mod-x^128+x^7+x^2+x+1");
    kani::cover!(high >> 127 == 1, "reduce_top_bit_reachable");
}

/// clmul64: x a single monomial x^i (any i), y arbitrary  ==> y << i ; and symmetric.
#[kani::proof]
#[kani::unwind(66)]
fn c20_clmul64_basis_times_full() {
    let i: u32 = kani::any();
    kani::assume(i < 64);
    let y: u64 = kani::any();
    let e = 1u64 << i;
    assert!(scalar::clmul64(e, y) == (y as u128) << i, "C20:clmul64(x^i,y)==y<<i");
    assert!(scalar::clmul64(y, e) == (y as u128) << i, "C20:clmul64(y,x^i)==y<<i");
    kani::cover!(i == 63 && y >> 63 == 1, "clmul64_top_bits_reachable");
}

/// clmul64: x an arbitrary 16-bit window at any shift <= 48, y arbitrary == schoolbook.
#[kani::proof]
#[kani::unwind(66)]
fn c20_clmul64_window16_times_full() {
    let w: u16 = kani::any();
    let s: u32 = kani::any();
    kani::assume(s <= 48);
    let x = (w as u64) << s;
    let y: u64 = kani::any();
    assert!(scalar::clmul64(x, y) == ref_clmul64(x, y), "C20:clmul64==schoolbook(window16)");
    kani::cover!(w == 0xffff && s == 48, "clmul64_window_top_reachable");
}

/// Karatsuba recombination of scalar::clmul128 with clmul64 replaced by its definition
/// (stub): a = x^i (any i < 128), b arbitrary ==> (b << i) as 256 bits; and symmetric.
/// Together with the structural bilinearity of the recombination (XOR/shift of bilinear
/// products of XOR-sums) basis x full determines the whole function.
#[kani::proof]
#[kani::unwind(66)]
#[kani::stub(scalar::clmul64, ref_clmul64)]
fn c20_clmul128_karatsuba_basis_times_full() {
    let i: u32 = kani::any();
    kani::assume(i < 128);
    let b: u128 = kani::any();
    let e = 1u128 << i;
    let exp_lo = b << i;
    let exp_hi = if i == 0 { 0 } else { b >> (128 - i) };
    let (lo, hi) = scalar::clmul128(e, b);
    assert!(lo == exp_lo && hi == exp_hi, "C20:scalar::clmul128(x^i,b)==b<<i(256-bit,split)");
    let (lo, hi) = scalar::clmul128(b, e);
    assert!(lo == exp_lo && hi == exp_hi, "C20:scalar::clmul128(b,x^i)==b<<i(256-bit,split)");
    kani::cover!(i == 127 && b >> 127 == 1, "clmul128_top_reachable");
}

/// Karatsuba recombination (clmul64 replaced by its definition) on two arbitrary 8-bit windows
/// at arbitrary positions: catches non-bilinear recombinations (e.g. OR instead of XOR on a
/// special-operand fast path) that basis x full cannot see.
#[kani::proof]
#[kani::unwind(130)]
#[kani::stub(scalar::clmul64, ref_clmul64)]
fn c20_clmul128_karatsuba_windows8() {
    let wa: u8 = kani::any();
    let wb: u8 = kani::any();
    let sa: u32 = kani::any();
    let sb: u32 = kani::any();
    kani::assume(sa <= 120 && sb <= 120);
    let a = (wa as u128) << sa;
    let b = (wb as u128) << sb;
    let (lo, hi) = scalar::clmul128(a, b);
    let (rl, rh) = ref_clmul128(a, b);
    assert!(lo == rl && hi == rh, "C20:scalar::clmul128==schoolbook(window8 x window8, any positions)");
    kani::cover!(sa == 120 && sb == 120 && wa == 0xff, "clmul128_windows8_top_reachable");
}

/// scalar::clmul128 with the *real* clmul64: both operands 12-bit windows at any positions.
#[kani::proof]
#[kani::unwind(130)]
fn c20_clmul128_real_windows() {
    let wa: u16 = kani::any();
    let wb: u16 = kani::any();
    let sa: u32 = kani::any();
    let sb: u32 = kani::any();
    kani::assume(wa < (1 << 12) && wb < (1 << 12) && sa <= 116 && sb <= 116);
    let a = (wa as u128) << sa;
    let b = (wb as u128) << sb;
    let (lo, hi) = scalar::clmul128(a, b);
    let (rl, rh) = ref_clmul128(a, b);
    assert!(lo == rl && hi == rh, "C20:scalar::clmul128==schoolbook(window12 x window12)");
    kani::cover!(sa == 116 && sb == 116 && wa == 0xfff, "clmul128_windows_top_reachable");
}

// ---- PCLMUL path: the instruction is modelled by its Intel definition (64x64 schoolbook of
// the selected halves), the recombination around it is the real code.
#[cfg(target_arch = "x86_64")]
mod pclmul {
    use super::*;
    use std::arch::x86_64::*;

    pub(super) fn model_clmulepi64<const IMM8: i32>(a: __m128i, b: __m128i) -> __m128i {
        let a: [u64; 2] = unsafe { std::mem::transmute(a) };
        let b: [u64; 2] = unsafe { std::mem::transmute(b) };
        let x = if IMM8 & 0x01 != 0 { a[1] } else { a[0] };
        let y = if IMM8 & 0x10 != 0 { b[1] } else { b[0] };
        let r = ref_clmul64(x, y);
        unsafe { std::mem::transmute(r) }
    }

    #[kani::proof]
    #[kani::unwind(66)]
    #[kani::stub(std::arch::x86_64::_mm_clmulepi64_si128, model_clmulepi64)]
    fn c20_pclmul_clmul128_basis_times_full() {
        let i: u32 = kani::any();
        kani::assume(i < 128);
        let b: u128 = kani::any();
        let e = 1u128 << i;
        let exp_lo = b << i;
        let exp_hi = if i == 0 { 0 } else { b >> (128 - i) };
        let (lo, hi) = unsafe { clmul::clmul128(std::mem::transmute(e), std::mem::transmute(b)) };
        let (lo, hi): (u128, u128) = unsafe { (std::mem::transmute(lo), std::mem::transmute(hi)) };
        assert!(lo == exp_lo && hi == exp_hi, "C20:pclmul::clmul128(x^i,b)==b<<i(256-bit,split)");
        let (lo, hi) = unsafe { clmul::clmul128(std::mem::transmute(b), std::mem::transmute(e)) };
        let (lo, hi): (u128, u128) = unsafe { (std::mem::transmute(lo), std::mem::transmute(hi)) };
        assert!(lo == exp_lo && hi == exp_hi, "C20:pclmul::clmul128(b,x^i)==b<<i(256-bit,split)");
        kani::cover!(i == 127 && b >> 127 == 1, "pclmul_top_reachable");
    }

    /// SIMD reduction == scalar reduction == bit-serial reference, all 2^256 inputs.
    #[kani::proof]
    #[kani::unwind(130)]
    #[kani::stub(std::arch::x86_64::_mm_clmulepi64_si128, model_clmulepi64)]
    fn c20_pclmul_reduce_eq_bitserial() {
        let low: u128 = kani::any();
        let high: u128 = kani::any();
        let r: u128 = unsafe { std::mem::transmute(clmul::gf128_reduce(std::mem::transmute(low), std::mem::transmute(high))) };
        assert!(r == ref_reduce(low, high), "C20:pclmul::gf128_reduce==bit-serial-reduction");
        kani::cover!(high >> 127 == 1, "pclmul_reduce_top_reachable");
    }
}
