// Kani harnesses appended (as child module `__verif`) to src/utils/serde.rs.
#![allow(unused_imports, dead_code, clippy::all)]
use super::*;
use crate::block::Block;
use crate::mpc::data_types::{GarbledGate, Key, Label, Mac, Share, Auth};

include!("/verif/harness/common.rs");

fn len_of<T: Serialize>(v: T) -> Option<usize> {
    let r = serialize(v);
    let l = match &r {
        Ok(b) => Some(b.len()),
        Err(_) => None,
    };
    std::mem::forget(r);
    l
}

// ---------------------------------------------------------------- C09 (cheap leading queries):
// scalars; these are listed first so that a change of the integer encoding is replayed on a
// small harness.
#[kani::proof]
#[kani::unwind(20)]
#[kani::stub(std::fmt::format, no_format)]
fn c09_len_scalars() {
    let a: u128 = kani::any();
    let b: u128 = kani::any();
    let la = len_of(a);
    assert!(la.is_some() && la == len_of(b), "C09:len(u128)-independent-of-value");
    assert!(la == Some(16), "C09:len(u128)==16");
    let c: (bool, Mac) = (kani::any(), Mac(kani::any()));
    let d: (bool, Mac) = (kani::any(), Mac(kani::any()));
    let lc = len_of(c);
    assert!(lc.is_some() && lc == len_of(d), "C09:len((bool,Mac))-independent-of-value");
    assert!(lc == Some(17), "C09:len((bool,Mac))==17");
    let e: u64 = kani::any();
    assert!(len_of(e) == Some(8), "C09:len(u64)==8");
    kani::cover!(la.is_some(), "serialize_ok_reachable");
}

// ---------------------------------------------------------------- C09: encoding length is a
// function of the shape only (2-safety by self-composition) and equals the fixed-width closed form.

#[kani::proof]
#[kani::unwind(20)]
#[kani::stub(std::fmt::format, no_format)]
fn c09_len_vec_opt_bool_mac() {
    // shape [Some, None, Some] as sent by input_processing / output
    let a: Vec<Option<(bool, Mac)>> = vec![Some((kani::any(), Mac(kani::any()))), None, Some((kani::any(), Mac(kani::any())))];
    let b: Vec<Option<(bool, Mac)>> = vec![Some((kani::any(), Mac(kani::any()))), None, Some((kani::any(), Mac(kani::any())))];
    let la = len_of(&a);
    let lb = len_of(&b);
    assert!(la.is_some() && la == lb, "C09:len(Vec<Option<(bool,Mac)>>)-independent-of-values");
    assert!(la == Some(8 + 18 + 1 + 18), "C09:len(Vec<Option<(bool,Mac)>>)==8+sum(fixed-widths)");
    kani::cover!(la.is_some(), "serialize_ok_reachable");
    std::mem::forget((a, b));
}

#[kani::proof]
#[kani::unwind(20)]
#[kani::stub(std::fmt::format, no_format)]
fn c09_len_vec_opt_bool_and_label() {
    let a: Vec<Option<bool>> = vec![Some(kani::any()), None, Some(kani::any())];
    let b: Vec<Option<bool>> = vec![Some(kani::any()), None, Some(kani::any())];
    let la = len_of(&a);
    assert!(la.is_some() && la == len_of(&b), "C09:len(Vec<Option<bool>>)-independent-of-values");
    assert!(la == Some(8 + 2 + 1 + 2), "C09:len(Vec<Option<bool>>)==closed-form");
    let c: Vec<Option<Label>> = vec![Some(Label(kani::any())), None];
    let d: Vec<Option<Label>> = vec![Some(Label(kani::any())), None];
    let lc = len_of(&c);
    assert!(lc.is_some() && lc == len_of(&d), "C09:len(Vec<Option<Label>>)-independent-of-values");
    assert!(lc == Some(8 + 17 + 1), "C09:len(Vec<Option<Label>>)==closed-form");
    let e: Vec<Option<(bool, Label)>> = vec![Some((kani::any(), Label(kani::any()))), None];
    let f: Vec<Option<(bool, Label)>> = vec![Some((kani::any(), Label(kani::any()))), None];
    let le = len_of(&e);
    assert!(le.is_some() && le == len_of(&f), "C09:len(Vec<Option<(bool,Label)>>)-independent-of-values");
    assert!(le == Some(8 + 18 + 1), "C09:len(Vec<Option<(bool,Label)>>)==closed-form");
    kani::cover!(le.is_some(), "serialize_ok_reachable");
    std::mem::forget((a, b, c, d, e, f));
}

#[kani::proof]
#[kani::unwind(20)]
#[kani::stub(std::fmt::format, no_format)]
fn c09_len_u128_family() {
    // u128 / Mac / Block / tuples: a varint or compact integer encoding would make these
    // value-dependent - the closed form pins bincode's legacy (fixed-width) configuration
    let a: Vec<u128> = vec![kani::any(), kani::any()];
    let b: Vec<u128> = vec![kani::any(), kani::any()];
    let la = len_of(&a);
    assert!(la.is_some() && la == len_of(&b), "C09:len(Vec<u128>)-independent-of-values");
    assert!(la == Some(8 + 32), "C09:len(Vec<u128>)==8+16n");
    let c: Vec<(bool, u128)> = vec![(kani::any(), kani::any()), (kani::any(), kani::any())];
    let d: Vec<(bool, u128)> = vec![(kani::any(), kani::any()), (kani::any(), kani::any())];
    let lc = len_of(&c);
    assert!(lc.is_some() && lc == len_of(&d), "C09:len(Vec<(bool,u128)>)-independent-of-values");
    assert!(lc == Some(8 + 34), "C09:len(Vec<(bool,u128)>)==8+17n");
    let e: Vec<(bool, bool, Mac, Mac)> = vec![(kani::any(), kani::any(), Mac(kani::any()), Mac(kani::any()))];
    let f: Vec<(bool, bool, Mac, Mac)> = vec![(kani::any(), kani::any(), Mac(kani::any()), Mac(kani::any()))];
    let le = len_of(&e);
    assert!(le.is_some() && le == len_of(&f), "C09:len(Vec<(bool,bool,Mac,Mac)>)-independent-of-values");
    assert!(le == Some(8 + 34), "C09:len(Vec<(bool,bool,Mac,Mac)>)==8+34n");
    let g: Vec<(bool, bool)> = vec![(kani::any(), kani::any()), (kani::any(), kani::any())];
    let lg = len_of(&g);
    assert!(lg == Some(8 + 4), "C09:len(Vec<(bool,bool)>)==8+2n");
    let h: Vec<u32> = vec![kani::any()];
    assert!(len_of(&h) == Some(8 + 4), "C09:len(Vec<u32>)==8+4n");
    kani::cover!(la.is_some(), "serialize_ok_reachable");
    std::mem::forget((a, b, c, d, e, f, g, h));
}

#[kani::proof]
#[kani::unwind(20)]
#[kani::stub(std::fmt::format, no_format)]
fn c09_len_dvalues_and_row() {
    // (Vec<bool>, Vec<Mac>) per bucket (check_dvalue), and the garbled row plaintext
    let a: Vec<(Vec<bool>, Vec<Mac>)> = vec![(vec![kani::any(), kani::any()], vec![Mac(kani::any()), Mac(kani::any())])];
    let b: Vec<(Vec<bool>, Vec<Mac>)> = vec![(vec![kani::any(), kani::any()], vec![Mac(kani::any()), Mac(kani::any())])];
    let la = len_of(&a);
    assert!(la.is_some() && la == len_of(&b), "C09:len(Vec<(Vec<bool>,Vec<Mac>)>)-independent-of-values");
    assert!(la == Some(8 + (8 + 2) + (8 + 32)), "C09:len(Vec<(Vec<bool>,Vec<Mac>)>)==closed-form");
    let r1: (bool, Vec<Mac>, Label) = (kani::any(), vec![Mac(kani::any()), Mac(kani::any())], Label(kani::any()));
    let r2: (bool, Vec<Mac>, Label) = (kani::any(), vec![Mac(kani::any()), Mac(kani::any())], Label(kani::any()));
    let lr = len_of(&r1);
    assert!(lr.is_some() && lr == len_of(&r2), "C09:len(garbled-row-plaintext)-independent-of-values");
    assert!(lr == Some(1 + 8 + 32 + 16), "C09:len(garbled-row-plaintext)==1+8+16n+16");
    kani::cover!(lr.is_some(), "serialize_ok_reachable");
    std::mem::forget((a, b, r1, r2));
}

#[kani::proof]
#[kani::unwind(20)]
#[kani::stub(std::fmt::format, no_format)]
fn c09_len_blocks_and_bytes() {
    let a: Vec<Block> = vec![Block::from(any_u128()), Block::from(any_u128())];
    let b: Vec<Block> = vec![Block::from(any_u128()), Block::from(any_u128())];
    let la = len_of(&a);
    assert!(la.is_some() && la == len_of(&b), "C09:len(Vec<Block>)-independent-of-values");
    let c: Vec<(Block, Block, Block)> = vec![(Block::from(any_u128()), Block::from(any_u128()), Block::from(any_u128()))];
    let d: Vec<(Block, Block, Block)> = vec![(Block::from(any_u128()), Block::from(any_u128()), Block::from(any_u128()))];
    let lc = len_of(&c);
    assert!(lc.is_some() && lc == len_of(&d), "C09:len(Vec<(Block,Block,Block)>)-independent-of-values");
    let e: Vec<Vec<u8>> = vec![vec![kani::any(), kani::any(), kani::any()], vec![kani::any(), kani::any(), kani::any()]];
    let f: Vec<Vec<u8>> = vec![vec![kani::any(), kani::any(), kani::any()], vec![kani::any(), kani::any(), kani::any()]];
    let le = len_of(&e);
    assert!(le.is_some() && le == len_of(&f), "C09:len(Vec<Vec<u8>>)-independent-of-values");
    assert!(le == Some(8 + 2 * (8 + 3)), "C09:len(Vec<Vec<u8>>)==closed-form");
    kani::cover!(le.is_some(), "serialize_ok_reachable");
    std::mem::forget((a, b, c, d, e, f));
}

#[kani::proof]
#[kani::unwind(20)]
#[kani::stub(std::fmt::format, no_format)]
fn c09_len_share_n2() {
    // trusted-dealer messages carry whole Shares
    let s = |b: bool| Share(b, Auth(vec![(Mac(kani::any()), Key(kani::any())), (Mac(kani::any()), Key(kani::any()))]));
    let a: Vec<Share> = vec![s(kani::any())];
    let b: Vec<Share> = vec![s(kani::any())];
    let la = len_of(&a);
    assert!(la.is_some() && la == len_of(&b), "C09:len(Vec<Share>)-independent-of-values");
    assert!(la == Some(8 + 1 + 8 + 2 * 32), "C09:len(Vec<Share>)==closed-form");
    kani::cover!(la.is_some(), "serialize_ok_reachable");
    std::mem::forget((a, b));
}

// ---------------------------------------------------------------- C08: the decoder returns Ok or
// Err for every byte string of the given length: no panic, overflow, OOB, and no allocation
// failure (CBMC checks every allocation size) for any 64-bit length prefix.

macro_rules! decode_total {
    ($name:ident, $ty:ty, $n:expr, $unw:expr) => {
        #[kani::proof]
        #[kani::unwind($unw)]
        #[kani::stub(std::fmt::format, no_format)]
        fn $name() {
            let bytes: [u8; $n] = kani::any();
            let r: Result<$ty, _> = deserialize(&bytes[..]);
            let ok = r.is_ok();
            kani::cover!(ok, "decode_ok_reachable");
            kani::cover!(!ok, "decode_err_reachable");
            std::mem::forget(r);
        }
    };
}
decode_total!(c08_decode_vec_bool_12, Vec<bool>, 12, 6);
decode_total!(c08_decode_vec_u128_12, Vec<u128>, 12, 4);
decode_total!(c08_decode_vec_bool_u128_12, Vec<(bool, u128)>, 12, 4);
decode_total!(c08_decode_vec_opt_bool_12, Vec<Option<bool>>, 12, 6);
decode_total!(c08_decode_vec_opt_bool_mac_12, Vec<Option<(bool, Mac)>>, 12, 6);
decode_total!(c08_decode_vec_opt_label_12, Vec<Option<Label>>, 12, 6);
decode_total!(c08_decode_vec_vec_u8_18, Vec<Vec<u8>>, 18, 4);
decode_total!(c08_decode_vec_block_12, Vec<Block>, 12, 4);
decode_total!(c08_decode_row_25, (bool, Vec<Mac>, Label), 25, 4);
decode_total!(c08_decode_vec_dvalues_18, Vec<(Vec<bool>, Vec<Mac>)>, 18, 4);
decode_total!(c08_decode_vec_bool_9, Vec<bool>, 9, 3);
decode_total!(c08_decode_vec_opt_bool_mac_9, Vec<Option<(bool, Mac)>>, 9, 3);
decode_total!(c08_decode_vec_bool_8, Vec<bool>, 8, 2);
decode_total!(c08_decode_vec_opt_u128_12, Vec<Option<u128>>, 12, 6);
decode_total!(c08_decode_vec_bool_bool_12, Vec<(bool, bool)>, 12, 6);
decode_total!(c08_decode_vec_bbmm_12, Vec<(bool, bool, Mac, Mac)>, 12, 4);
decode_total!(c08_decode_vec_opt_bool_label_12, Vec<Option<(bool, Label)>>, 12, 6);
decode_total!(c08_decode_vec_u32_12, Vec<u32>, 12, 4);
