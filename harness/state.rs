// Kani harnesses appended (as child module `__verif`) to crates/polytune-server-core/src/state.rs.
//
// The state machine's handlers are `async fn`s over tokio queues; what is executed here are the
// statement runs cut out of them on every run (runner/segspecs.py, `sc_*`), with `self` renamed
// to an `EnvState` that carries the real `PolicyStateKind` and records calls to the helpers that
// need tokio mpsc queues (they cannot be created under Kani: futex).
#![allow(unused_imports, dead_code, clippy::all)]
use super::*;

include!("/verif/harness/common.rs");

// ------------------------------------------------------------------------------------------ env

/// Stand-ins for the tokio endpoints that `msg()` only looks up.
pub(crate) struct EnvSender;
pub(crate) struct EnvReceiver;
pub(crate) struct EnvRet;

static mut ENV_ERR_SENT: bool = false;
static mut ENV_REACHED_SEND: bool = false;
static mut ENV_LEADER_PROCEEDS: bool = false;
static mut ENV_HASH_SEL: bool = false;

fn env_ret_err<E>(_ret: EnvRet, _err: E) {
    unsafe {
        ENV_ERR_SENT = true;
    }
    std::mem::forget(_err);
}

fn env_reached_send() {
    unsafe {
        ENV_REACHED_SEND = true;
    }
}

fn env_leader_proceeds() {
    unsafe {
        ENV_LEADER_PROCEEDS = true;
    }
}

/// `Policy::program_hash` is BLAKE3 (cpuid dispatch, outside Kani); the comparison that uses it
/// is the subject, so the scheduled hash is one of two one-byte strings chosen by the harness.
fn env_program_hash(_p: &Policy) -> String {
    hash_str(unsafe { ENV_HASH_SEL })
}

fn hash_str(sel: bool) -> String {
    if sel { String::from("b") } else { String::from("a") }
}

#[derive(Debug)]
pub(crate) struct NoClient;
impl PolicyClientBuilder for NoClient {
    type Client = NoClient;
    fn new_client(&self, _p: &Policy) -> NoClient {
        NoClient
    }
}
#[derive(Debug)]
pub(crate) struct NoClientErr;
impl std::fmt::Display for NoClientErr {
    fn fmt(&self, _f: &mut std::fmt::Formatter<'_>) -> std::fmt::Result {
        Ok(())
    }
}
impl std::error::Error for NoClientErr {}
impl PolicyClient for NoClient {
    type Error = NoClientErr;
    async fn validate(&self, _to: usize, _r: ValidateRequest) -> Result<(), NoClientErr> {
        Ok(())
    }
    async fn run(&self, _to: usize, _r: RunRequest) -> Result<(), NoClientErr> {
        Ok(())
    }
    async fn consts(&self, _to: usize, _r: ConstsRequest) -> Result<(), NoClientErr> {
        Ok(())
    }
    async fn msg(&self, _to: usize, _r: MpcMsg) -> Result<(), NoClientErr> {
        Ok(())
    }
    // not an `async fn`: the returned future must not own the arguments (the drop glue of a
    // future that holds a Result<Literal, OutputError> reaches Box<dyn Error>: measured 400 s vs 10 s)
    fn output(&self, to: url::Url, r: Result<Literal, OutputError>) -> impl std::future::Future<Output = Result<(), NoClientErr>> + Send {
        unsafe {
            ENV_OUTPUTS += 1;
            ENV_OUTPUT_WAS_ERR = r.is_err();
        }
        std::mem::forget((to, r));
        std::future::ready(Ok(()))
    }
}

// Answers. `ret_err(ret, e)` (log, then `ret.send(Err(e))`) and `ret.send(Ok(()))` are replaced by
// recorders: sending a `Result<(), E>` through the real oneshot cell makes CBMC execute the drop
// glue of every error variant, among them `Box<dyn Error>` (virtual drop over all impls:
// io::Error recursion - measured > 900 s). The reply channels stay real tokio oneshot senders
// (the cut statements store them in the real state enum); an answer on a sender whose receiver
// was dropped by the harness is recorded separately, which tells two pending callers apart.
pub(crate) const NONE: u8 = 0;
pub(crate) const OK: u8 = 200;
static mut ANSWER: [[u8; 2]; 5] = [[0; 2]; 5];
static mut ANSWERS: [[u8; 2]; 5] = [[0; 2]; 5];

pub(crate) trait EnvErr {
    const SLOT: usize;
    fn code(&self) -> u8;
}
pub(crate) const SCHEDULE: usize = 0;
pub(crate) const VALIDATE: usize = 1;
pub(crate) const CONSTS: usize = 2;
pub(crate) const RUN: usize = 3;
pub(crate) const CANCEL: usize = 4;
pub(crate) const E_INVALID_STATE: u8 = 1;
pub(crate) const E_LEADER_MISMATCH: u8 = 2;
pub(crate) const E_HASH_MISMATCH: u8 = 3;
pub(crate) const E_VALIDATE_FAILED: u8 = 4;
pub(crate) const E_INVALID_PROGRAM: u8 = 5;
pub(crate) const E_OTHER: u8 = 9;
impl EnvErr for ScheduleError {
    const SLOT: usize = SCHEDULE;
    fn code(&self) -> u8 {
        match self {
            ScheduleError::InvalidStateLeader { .. } | ScheduleError::InvalidStateFollower { .. } => E_INVALID_STATE,
            ScheduleError::LeaderMismatch { .. } => E_LEADER_MISMATCH,
            ScheduleError::ValidateFailed { .. } => E_VALIDATE_FAILED,
            ScheduleError::InvalidProgram { .. } => E_INVALID_PROGRAM,
            #[allow(unreachable_patterns)]
            _ => E_OTHER,
        }
    }
}
impl EnvErr for ValidateError {
    const SLOT: usize = VALIDATE;
    fn code(&self) -> u8 {
        match self {
            ValidateError::InvalidState { .. } => E_INVALID_STATE,
            ValidateError::LeaderMismatch { .. } => E_LEADER_MISMATCH,
            ValidateError::ProgramHashMismatch { .. } => E_HASH_MISMATCH,
            #[allow(unreachable_patterns)]
            _ => E_OTHER,
        }
    }
}
impl EnvErr for ConstsError {
    const SLOT: usize = CONSTS;
    fn code(&self) -> u8 {
        match self {
            ConstsError::InvalidState { .. } => E_INVALID_STATE,
            #[allow(unreachable_patterns)]
            _ => E_OTHER,
        }
    }
}
impl EnvErr for CancelError {
    const SLOT: usize = CANCEL;
    fn code(&self) -> u8 {
        E_OTHER
    }
}
impl EnvErr for RunError {
    const SLOT: usize = RUN;
    fn code(&self) -> u8 {
        match self {
            RunError::InvalidState { .. } => E_INVALID_STATE,
            #[allow(unreachable_patterns)]
            _ => E_OTHER,
        }
    }
}

fn record_answer(slot: usize, marked: bool, what: u8) {
    unsafe {
        ANSWER[slot][marked as usize] = what;
        ANSWERS[slot][marked as usize] += 1;
    }
}

fn env_answer_err<E: EnvErr>(ret: Ret<E>, err: E) {
    record_answer(E::SLOT, ret.is_closed(), err.code());
    std::mem::forget((ret, err));
}

pub(crate) trait EnvAnswerOk {
    fn env_answer_ok(self) -> Result<(), ()>;
}
impl<E: EnvErr> EnvAnswerOk for Ret<E> {
    fn env_answer_ok(self) -> Result<(), ()> {
        record_answer(E::SLOT, self.is_closed(), OK);
        std::mem::forget(self);
        Ok(())
    }
}

fn reset_answers() {
    unsafe {
        ANSWER = [[0; 2]; 5];
        ANSWERS = [[0; 2]; 5];
        ENV_LEADER_PROCEEDS = false;
        ENV_OUTPUTS = 0;
        ENV_OUTPUT_WAS_ERR = false;
        ENV_PERMITS_TAKEN = 0;
        ENV_PERMITS_RETURNED = 0;
        ENV_CMD = 0;
        ENV_CMDS = 0;
        ENV_QUEUE_FULL = false;
    }
}
/// (what, how often) was answered on the reply channel of kind `slot`; `marked`: the one whose
/// receiver the harness dropped beforehand.
fn answer(slot: usize, marked: bool) -> (u8, u8) {
    unsafe { (ANSWER[slot][marked as usize], ANSWERS[slot][marked as usize]) }
}

/// a reply channel whose caller is still waiting
fn open_ret<E>() -> Ret<E> {
    let (tx, rx) = oneshot::channel::<Result<(), E>>();
    std::mem::forget(rx);
    tx
}
/// a second reply channel of the same kind, told apart by its dropped receiver
fn marked_ret<E>() -> Ret<E> {
    let (tx, rx) = oneshot::channel::<Result<(), E>>();
    drop(rx);
    tx
}

// Awaits inside a cut. Every future the cut statements await is an environment future that is
// ready at once (joined RPC rounds, the stand-in semaphore / command queue / client), so
// `.await` becomes one poll with a no-op waker; a Pending future is a harness error (panic).
pub(crate) trait EnvNow {
    type Out;
    fn env_now(self) -> Self::Out;
}
impl<F: std::future::Future> EnvNow for F {
    type Out = F::Output;
    fn env_now(self) -> F::Output {
        let mut f = std::pin::pin!(self);
        let mut cx = std::task::Context::from_waker(std::task::Waker::noop());
        match f.as_mut().poll(&mut cx) {
            std::task::Poll::Ready(v) => v,
            std::task::Poll::Pending => panic!("environment future is not ready"),
        }
    }
}

/// One poll; `None` while the future is pending (the cut then stops at this await).
pub(crate) trait EnvTry {
    type Out;
    fn env_try(self) -> Option<Self::Out>;
}
impl<F: std::future::Future> EnvTry for F {
    type Out = F::Output;
    fn env_try(self) -> Option<F::Output> {
        let mut f = std::pin::pin!(self);
        let mut cx = std::task::Context::from_waker(std::task::Waker::noop());
        match f.as_mut().poll(&mut cx) {
            std::task::Poll::Ready(v) => Some(v),
            std::task::Poll::Pending => None,
        }
    }
}

static mut ENV_TYPE_CHECK_FAILS: bool = false;
static mut ENV_TYPE_CHECK_PASSED: bool = false;
/// the Garble type checker: an arbitrary verdict
fn env_type_check(_program: &str) -> Result<TypedProgram, garble_lang::Error> {
    if unsafe { ENV_TYPE_CHECK_FAILS } { Err(garble_lang::Error::FnNotFound(String::new())) } else { Ok(fake_typed_program()) }
}
/// rendering of the type error (walks the whole error tree and the source): not the subject
fn env_prettify(err: garble_lang::Error, _prg: &str) -> String {
    std::mem::forget(err);
    String::new()
}
fn env_type_check_passed(prg: TypedProgram) {
    unsafe { ENV_TYPE_CHECK_PASSED = true };
    std::mem::forget(prg);
}

static mut ENV_OUTPUTS: u8 = 0;
static mut ENV_ACKED_BEFORE_OUTPUT: bool = false;
static mut ENV_OUTPUT_WAS_ERR: bool = false;
static mut ENV_PERMITS_TAKEN: u8 = 0;
static mut ENV_PERMITS_RETURNED: u8 = 0;
static mut ENV_CMD: u8 = 0;
static mut ENV_CMDS: u8 = 0;
static mut ENV_VALIDATE_FAILS: bool = false;
static mut ENV_RUN_FAILS: bool = false;
static mut ENV_CONSTS_FAIL: bool = false;

/// the leader's slot of the concurrency budget: taking and returning it are recorded
pub(crate) struct EnvSemaphore;
pub(crate) struct EnvPermit;
impl EnvSemaphore {
    async fn acquire_owned(self: Arc<Self>) -> Result<EnvPermit, ()> {
        unsafe { ENV_PERMITS_TAKEN += 1 };
        Ok(EnvPermit)
    }
}
impl Drop for EnvPermit {
    fn drop(&mut self) {
        unsafe { ENV_PERMITS_RETURNED += 1 };
    }
}

/// the actor's own command queue: records which command was enqueued
pub(crate) struct EnvCmdTx;
#[derive(Debug)]
pub(crate) struct EnvSendErr;
pub(crate) const CMD_RUN: u8 = 1;
pub(crate) const CMD_INTERNAL_CONSTS_SENT: u8 = 2;
pub(crate) const CMD_STOP: u8 = 3;
pub(crate) const CMD_CANCEL: u8 = 4;
pub(crate) const CMD_OTHER: u8 = 9;
impl EnvCmdTx {
    // not an `async fn` for the same reason as NoClient::output
    fn send(&self, cmd: PolicyCmd) -> EnvSend {
        let code = match &cmd {
            PolicyCmd::Run(..) => CMD_RUN,
            PolicyCmd::InternalConstsSent => CMD_INTERNAL_CONSTS_SENT,
            PolicyCmd::Stop => CMD_STOP,
            PolicyCmd::Cancel(..) => CMD_CANCEL,
            _ => CMD_OTHER,
        };
        unsafe {
            ENV_CMD = code;
            ENV_CMDS += 1;
        }
        std::mem::forget(cmd);
        EnvSend
    }
}
/// enqueuing a command: ready at once, or pending for good while the actor's queue is full
pub(crate) struct EnvSend;
static mut ENV_QUEUE_FULL: bool = false;
impl std::future::Future for EnvSend {
    type Output = Result<(), EnvSendErr>;
    fn poll(self: std::pin::Pin<&mut Self>, _cx: &mut std::task::Context<'_>) -> std::task::Poll<Self::Output> {
        if unsafe { ENV_QUEUE_FULL } { std::task::Poll::Pending } else { std::task::Poll::Ready(Ok(())) }
    }
}

/// joined result of one RPC round to all peers (the futures themselves are async closures)
fn env_validate_round() -> std::future::Ready<Result<Vec<()>, (usize, NoClientErr)>> {
    std::future::ready(if unsafe { ENV_VALIDATE_FAILS } { Err((1, NoClientErr)) } else { Ok(Vec::new()) })
}
fn env_run_round() -> std::future::Ready<Result<Vec<()>, NoClientErr>> {
    std::future::ready(if unsafe { ENV_RUN_FAILS } { Err(NoClientErr) } else { Ok(Vec::new()) })
}
fn env_consts_round() -> std::future::Ready<Result<Vec<()>, NoClientErr>> {
    std::future::ready(if unsafe { ENV_CONSTS_FAIL } { Err(NoClientErr) } else { Ok(Vec::new()) })
}

/// `self` of the cut statements: the real state enum plus call records for the helpers.
pub(crate) struct EnvState {
    state_kind: PolicyStateKind<NoClient>,
    client_builder: NoClient,
    start_span: Option<Span>,
    concurrency: Arc<EnvSemaphore>,
    permit: Option<EnvPermit>,
    cmd_tx: EnvCmdTx,
    // same names as the real fields, so that an edit which consults them still compiles
    channel_senders: Vec<EnvSender>,
    channel_receivers: Option<Vec<EnvReceiver>>,
    consts: GarbleConsts,
    tmp_dir_path: Option<PathBuf>,
    init_channel_calls: u8,
    insert_consts_calls: u8,
    check_consts_calls: u8,
}

impl EnvState {
    fn new(state_kind: PolicyStateKind<NoClient>) -> Self {
        EnvState { state_kind, client_builder: NoClient, start_span: None, concurrency: Arc::new(EnvSemaphore), permit: None, cmd_tx: EnvCmdTx, channel_senders: Vec::new(), channel_receivers: None, consts: HashMap::new(), tmp_dir_path: None, init_channel_calls: 0, insert_consts_calls: 0, check_consts_calls: 0 }
    }
    /// the real one replaces `channel_senders`/`channel_receivers` by fresh tokio queues
    fn init_channel(&mut self, _policy: &Policy) {
        self.init_channel_calls += 1;
        self.channel_senders = Vec::new();
        self.channel_receivers = Some(Vec::new());
    }
    /// a machine whose MPC task is running: two peers' endpoints live, receivers handed to the task
    fn executing() -> Self {
        let mut st = EnvState::new(executing());
        st.channel_senders = vec![EnvSender, EnvSender];
        st.channel_receivers = None;
        st
    }
    fn endpoints_untouched(&self) -> bool {
        self.init_channel_calls == 0 && self.channel_senders.len() == 2 && self.channel_receivers.is_none()
    }
    /// a machine in the given state of a scheduled policy: two peers' endpoints exist, the
    /// receivers are still with the machine (they are handed to the MPC channel on Running)
    fn scheduled(state_kind: PolicyStateKind<NoClient>, receivers_taken: bool) -> Self {
        let mut st = EnvState::new(state_kind);
        st.channel_senders = vec![EnvSender, EnvSender];
        st.channel_receivers = if receivers_taken { None } else { Some(vec![EnvReceiver, EnvReceiver]) };
        st
    }
    fn scheduled_endpoints_untouched(&self, receivers_taken: bool) -> bool {
        self.init_channel_calls == 0
            && self.channel_senders.len() == 2
            && match &self.channel_receivers {
                None => receivers_taken,
                Some(r) => !receivers_taken && r.len() == 2,
            }
    }
    fn insert_consts(&mut self, _party: usize, consts: Consts) {
        self.insert_consts_calls += 1;
        std::mem::forget(consts);
    }
    fn env_check_consts(&mut self, client: NoClient, policy: Policy, typed_program: TypedProgram) {
        self.check_consts_calls += 1;
        std::mem::forget((client, policy, typed_program));
    }
}

/// `HashMap::new()` seeds its hasher from the OS (getrandom: a syscall Kani cannot model). The
/// maps the cut statements move around stay empty, so the keys are irrelevant: fixed keys.
fn env_random_state() -> std::collections::hash_map::RandomState {
    unsafe { std::mem::transmute([0u64; 2]) }
}

fn fake_policy(party: usize, leader: usize) -> Policy {
    Policy { computation_id: Uuid::nil(), participants: Vec::new(), program: String::new(), leader, party, input: Literal::True, output: None, constants: HashMap::new() }
}

/// The type-checked program is only moved into the next state by the cut statements.
fn fake_typed_program() -> TypedProgram {
    TypedProgram { const_deps: HashMap::new(), const_defs: HashMap::new(), struct_defs: HashMap::new(), enum_defs: HashMap::new(), fn_defs: HashMap::new() }
}

fn fake_consts_request(from: usize) -> ConstsRequest {
    ConstsRequest { from, computation_id: Uuid::nil(), consts: HashMap::new() }
}

// `executing()` (a machine whose MPC task has been spawned) is generated from the field list of
// PolicyStateKind::Executing in the current source: see segs_state.rs.

include!("/verif/harness/segs_state.rs");

fn senders(n: u8) -> Vec<EnvSender> {
    match n {
        0 => vec![],
        1 => vec![EnvSender],
        2 => vec![EnvSender, EnvSender],
        _ => vec![EnvSender, EnvSender, EnvSender],
    }
}

// ------------------------------------------------------------------------------------------ msg()

/// C14 - an MPC message naming an unknown sender (index >= participants), or arriving before any
/// policy was scheduled (no channel endpoints yet), is answered with an error before the
/// message is forwarded; the handler does not panic and keeps the state machine running.
#[kani::proof]
#[kani::unwind(5)]
#[kani::stub(std::fmt::format, no_format)]
#[kani::stub(std::collections::hash_map::RandomState::new, env_random_state)]
fn c14_msg_unknown_sender_is_an_error() {
    let n: u8 = kani::any();
    let cs = senders(n);
    let len = cs.len();
    let from: usize = kani::any();
    let msg = MpcMsg { from, data: Vec::new() };
    unsafe {
        ENV_ERR_SENT = false;
        ENV_REACHED_SEND = false;
    }
    let flow = seg_sc_msg_head(&cs, &msg, EnvRet);
    let (err_sent, reached) = unsafe { (ENV_ERR_SENT, ENV_REACHED_SEND) };
    if from >= len {
        assert!(!reached, "C14:msg:unknown-sender-never-reaches-the-forwarding-send");
        assert!(err_sent, "C14:msg:unknown-sender-is-answered-with-an-error");
        assert!(matches!(flow, ControlFlow::Continue(())), "C14:msg:state-machine-keeps-running-after-a-stray-message");
    } else {
        assert!(reached && !err_sent, "C14:msg:known-sender-is-forwarded");
    }
    kani::cover!(from >= len && len == 2, "unknown_sender_reachable");
    kani::cover!(from < len, "known_sender_reachable");
    std::mem::forget((cs, msg));
}

/// Same before scheduling: the endpoint vector is empty, every index is unknown.
#[kani::proof]
#[kani::unwind(5)]
#[kani::stub(std::fmt::format, no_format)]
#[kani::stub(std::collections::hash_map::RandomState::new, env_random_state)]
fn c14_msg_before_schedule_is_an_error() {
    let cs: Vec<EnvSender> = vec![];
    let msg = MpcMsg { from: kani::any(), data: Vec::new() };
    unsafe {
        ENV_ERR_SENT = false;
        ENV_REACHED_SEND = false;
    }
    let flow = seg_sc_msg_head(&cs, &msg, EnvRet);
    let (err_sent, reached) = unsafe { (ENV_ERR_SENT, ENV_REACHED_SEND) };
    assert!(!reached && err_sent && matches!(flow, ControlFlow::Continue(())), "C14:msg:message-before-scheduling-is-answered-with-an-error-and-does-not-stop-the-machine");
    kani::cover!(err_sent, "before_schedule_reachable");
    std::mem::forget((cs, msg));
}

// ------------------------------------------------------------------------------------------ schedule()

fn roles(is_leader: bool) -> (usize, usize) {
    let party: usize = kani::any();
    kani::assume(party < 3);
    (party, if is_leader { party } else { (party + 1) % 3 })
}

/// C14 - a duplicate schedule while the computation is executing (follower and leader role):
/// answered with an error, the state and the MPC channel endpoints stay as they are, the state
/// machine keeps running.
#[kani::proof]
#[kani::unwind(5)]
#[kani::stub(std::fmt::format, no_format)]
#[kani::stub(std::collections::hash_map::RandomState::new, env_random_state)]
fn c14_schedule_duplicate_while_executing() {
    let is_leader: bool = kani::any();
    let (party, leader) = roles(is_leader);
    reset_answers();
    let flow = seg_sc_schedule(EnvState::executing(), fake_policy(party, leader), open_ret(), fake_typed_program(), is_leader);
    let proceeds = unsafe { ENV_LEADER_PROCEEDS };
    assert!(!proceeds, "C14:schedule:duplicate-leader-schedule-does-not-start-another-validation-round");
    match flow {
        ControlFlow::Continue(st) => {
            assert!(st.endpoints_untouched(), "C14:schedule:rejected-duplicate-leaves-the-mpc-channel-endpoints-untouched");
            assert!(matches!(st.state_kind, PolicyStateKind::Executing { .. }), "C14:schedule:rejected-duplicate-keeps-the-state");
            assert!(answer(SCHEDULE, false) == (E_INVALID_STATE, 1), "C14:schedule:duplicate-is-answered-with-an-invalid-state-error");
            kani::cover!(is_leader, "leader_duplicate_reachable");
            kani::cover!(!is_leader, "follower_duplicate_reachable");
            std::mem::forget(st);
        }
        ControlFlow::Break(()) => {
            assert!(false, "C14:schedule:rejected-duplicate-does-not-stop-the-state-machine");
        }
    }
}

/// Counterpart (no over-demand, and the accepted schedule does create endpoints): first schedule
/// in Init. Follower: waits for validation, caller not answered yet. Leader: goes on to validate.
#[kani::proof]
#[kani::unwind(5)]
#[kani::stub(std::fmt::format, no_format)]
#[kani::stub(std::collections::hash_map::RandomState::new, env_random_state)]
fn c14_schedule_first_is_accepted() {
    let is_leader: bool = kani::any();
    let (party, leader) = roles(is_leader);
    reset_answers();
    let flow = seg_sc_schedule(EnvState::new(PolicyStateKind::Init), fake_policy(party, leader), open_ret(), fake_typed_program(), is_leader);
    let proceeds = unsafe { ENV_LEADER_PROCEEDS };
    assert!(answer(SCHEDULE, false) == (NONE, 0), "C14:schedule:first-schedule-is-not-answered-before-validation");
    if is_leader {
        assert!(proceeds, "C14:schedule:first-leader-schedule-proceeds-to-validation");
        kani::cover!(true, "leader_first_reachable");
        std::mem::forget(flow);
    } else {
        match flow {
            ControlFlow::Continue(st) => {
                assert!(st.init_channel_calls == 1, "C14:schedule:accepted-schedule-creates-the-endpoints-once");
                assert!(matches!(st.state_kind, PolicyStateKind::AwaitingValidation { .. }), "C14:schedule:follower-waits-for-validation");
                kani::cover!(true, "follower_first_reachable");
                std::mem::forget(st);
            }
            ControlFlow::Break(()) => assert!(false, "C14:schedule:first-follower-schedule-keeps-the-machine-running"),
        }
    }
}

// ------------------------------------------------------------------------------------------ validate()

fn pending_validate() -> PolicyStateKind<NoClient> {
    PolicyStateKind::ValidateRequested { request: ValidateRequest { computation_id: Uuid::nil(), program_hash: String::from("a"), leader: 0 }, validate_ret: marked_ret() }
}

/// C14 - a validate request while the computation is executing / a second validate while the
/// first is still pending: InvalidState error for the stray caller only, state kept, machine
/// keeps running.
fn validate_in_wrong_state(pending: bool) {
    let state = if pending { pending_validate() } else { executing() };
    let req = ValidateRequest { computation_id: Uuid::nil(), program_hash: String::from("a"), leader: kani::any() };
    reset_answers();
    let flow = seg_sc_validate(if pending { EnvState::new(state) } else { std::mem::forget(state); EnvState::executing() }, req, open_ret());
    match flow {
        ControlFlow::Continue(st) => {
            assert!(pending || st.endpoints_untouched(), "C14:validate:stray-validate-leaves-the-mpc-channel-endpoints-untouched");
            let kept = if pending { matches!(st.state_kind, PolicyStateKind::ValidateRequested { .. }) } else { matches!(st.state_kind, PolicyStateKind::Executing { .. }) };
            assert!(kept, "C14:validate:stray-validate-keeps-the-state");
            assert!(answer(VALIDATE, false) == (E_INVALID_STATE, 1), "C14:validate:stray-validate-is-answered-with-an-invalid-state-error");
            assert!(answer(VALIDATE, true) == (NONE, 0), "C14:validate:the-pending-validate-is-not-answered-by-the-stray-one");
            kani::cover!(true, "reachable");
            std::mem::forget(st);
        }
        ControlFlow::Break(()) => assert!(false, "C14:validate:stray-validate-does-not-stop-the-state-machine"),
    }
}

#[kani::proof]
#[kani::unwind(5)]
#[kani::stub(std::fmt::format, no_format)]
#[kani::stub(std::collections::hash_map::RandomState::new, env_random_state)]
fn c14_validate_while_executing() {
    validate_in_wrong_state(false)
}

#[kani::proof]
#[kani::unwind(5)]
#[kani::stub(std::fmt::format, no_format)]
#[kani::stub(std::collections::hash_map::RandomState::new, env_random_state)]
fn c14_validate_duplicate_while_pending() {
    validate_in_wrong_state(true)
}

/// C16 - validate against a scheduled follower policy (AwaitingValidation): a different leader or
/// a different program hash ends with an error for the leader and stops this party's machine
/// (Break; the schedule caller's reply channel is dropped with it - never an Ok). Equal leader and
/// hash: both callers get Ok and the policy is Validated.
fn validate_against_scheduled_policy(same_hash: bool) -> (usize, usize) {
    let pol_leader: usize = kani::any();
    let req_leader: usize = kani::any();
    kani::assume(pol_leader < 3 && req_leader < 3);
    unsafe { ENV_HASH_SEL = false };
    let state = PolicyStateKind::AwaitingValidation { client: NoClient, policy: fake_policy((pol_leader + 1) % 3, pol_leader), typed_program: fake_typed_program(), schedule_ret: open_ret() };
    let req = ValidateRequest { computation_id: Uuid::nil(), program_hash: hash_str(!same_hash), leader: req_leader };
    reset_answers();
    let flow = seg_sc_validate(EnvState::new(state), req, open_ret());
    let compatible = pol_leader == req_leader && same_hash;
    let (v, s) = (answer(VALIDATE, false), answer(SCHEDULE, false));
    if compatible {
        assert!(v == (OK, 1) && s == (OK, 1), "C16:validate:compatible-policy-is-accepted-for-both-callers");
        match flow {
            ControlFlow::Continue(st) => {
                assert!(matches!(st.state_kind, PolicyStateKind::Validated { .. }), "C16:validate:compatible-policy-becomes-validated");
                std::mem::forget(st);
            }
            ControlFlow::Break(()) => assert!(false, "C16:validate:compatible-policy-keeps-running"),
        }
    } else {
        assert!(v.1 == 1 && v.0 != OK && v.0 != NONE, "C16:validate:mismatching-policy-is-refused-with-an-error");
        assert!(v.0 == if pol_leader != req_leader { E_LEADER_MISMATCH } else { E_HASH_MISMATCH }, "C16:validate:the-error-names-the-mismatch");
        assert!(s.0 != OK, "C16:validate:schedule-of-a-mismatching-policy-is-never-answered-ok");
        assert!(matches!(flow, ControlFlow::Break(())), "C16:validate:mismatching-policy-stops-before-any-mpc-traffic");
        std::mem::forget(flow);
    }
    (pol_leader, req_leader)
}

#[kani::proof]
#[kani::unwind(5)]
#[kani::stub(std::fmt::format, no_format)]
#[kani::stub(std::collections::hash_map::RandomState::new, env_random_state)]
fn c16_validate_same_program() {
    let (p, r) = validate_against_scheduled_policy(true);
    kani::cover!(p == r, "compatible_reachable");
    kani::cover!(p != r, "leader_mismatch_reachable");
}

#[kani::proof]
#[kani::unwind(5)]
#[kani::stub(std::fmt::format, no_format)]
#[kani::stub(std::collections::hash_map::RandomState::new, env_random_state)]
fn c16_validate_other_program() {
    let (p, r) = validate_against_scheduled_policy(false);
    kani::cover!(p == r, "hash_mismatch_reachable");
    kani::cover!(p != r, "leader_and_hash_mismatch_reachable");
}

/// C16 - the other arrival order: the validate request came first (ValidateRequested), now the
/// follower's schedule arrives.
fn schedule_after_validate_request(same_hash: bool) -> (usize, usize) {
    let pol_leader: usize = kani::any();
    let req_leader: usize = kani::any();
    kani::assume(pol_leader < 3 && req_leader < 3);
    unsafe { ENV_HASH_SEL = false };
    let state = PolicyStateKind::ValidateRequested { request: ValidateRequest { computation_id: Uuid::nil(), program_hash: hash_str(!same_hash), leader: req_leader }, validate_ret: open_ret() };
    reset_answers();
    let flow = seg_sc_schedule(EnvState::new(state), fake_policy((pol_leader + 1) % 3, pol_leader), open_ret(), fake_typed_program(), false);
    let compatible = pol_leader == req_leader && same_hash;
    let (v, s) = (answer(VALIDATE, false), answer(SCHEDULE, false));
    if compatible {
        assert!(v == (OK, 1) && s == (OK, 1), "C16:schedule:compatible-policy-is-accepted-for-both-callers");
        match flow {
            ControlFlow::Continue(st) => {
                assert!(matches!(st.state_kind, PolicyStateKind::Validated { .. }), "C16:schedule:compatible-policy-becomes-validated");
                assert!(st.init_channel_calls == 1, "C16:schedule:accepted-schedule-creates-the-endpoints-once");
                std::mem::forget(st);
            }
            ControlFlow::Break(()) => assert!(false, "C16:schedule:compatible-policy-keeps-running"),
        }
    } else {
        assert!(v.1 == 1 && v.0 != OK && v.0 != NONE, "C16:schedule:mismatching-policy-is-refused-with-an-error-for-the-leader");
        assert!(v.0 == if pol_leader != req_leader { E_LEADER_MISMATCH } else { E_HASH_MISMATCH }, "C16:schedule:the-error-names-the-mismatch");
        assert!(s.0 != OK, "C16:schedule:schedule-of-a-mismatching-policy-is-never-answered-ok");
        assert!(matches!(flow, ControlFlow::Break(())), "C16:schedule:mismatching-policy-stops-before-any-mpc-traffic");
        std::mem::forget(flow);
    }
    (pol_leader, req_leader)
}

#[kani::proof]
#[kani::unwind(5)]
#[kani::stub(std::fmt::format, no_format)]
#[kani::stub(std::collections::hash_map::RandomState::new, env_random_state)]
fn c16_schedule_after_validate_same_program() {
    let (p, r) = schedule_after_validate_request(true);
    kani::cover!(p == r, "compatible_reachable");
    kani::cover!(p != r, "leader_mismatch_reachable");
}

#[kani::proof]
#[kani::unwind(5)]
#[kani::stub(std::fmt::format, no_format)]
#[kani::stub(std::collections::hash_map::RandomState::new, env_random_state)]
fn c16_schedule_after_validate_other_program() {
    let (p, r) = schedule_after_validate_request(false);
    kani::cover!(p == r, "hash_mismatch_reachable");
    kani::cover!(p != r, "leader_and_hash_mismatch_reachable");
}

// ------------------------------------------------------------------------------------------ consts()

/// C14 - constants for a computation that is not validated yet (Init, ValidateRequested) or is
/// already executing: InvalidState error, nothing inserted, state kept, machine keeps running.
fn consts_in_wrong_state(which: u8) {
    let state = match which {
        0 => PolicyStateKind::Init,
        1 => pending_validate(),
        _ => executing(),
    };
    reset_answers();
    let flow = seg_sc_consts(if which < 2 { EnvState::new(state) } else { std::mem::forget(state); EnvState::executing() }, fake_consts_request(kani::any()), open_ret());
    match flow {
        ControlFlow::Continue(st) => {
            assert!(which < 2 || st.endpoints_untouched(), "C14:consts:stray-constants-leave-the-mpc-channel-endpoints-untouched");
            let kept = match which {
                0 => matches!(st.state_kind, PolicyStateKind::Init),
                1 => matches!(st.state_kind, PolicyStateKind::ValidateRequested { .. }),
                _ => matches!(st.state_kind, PolicyStateKind::Executing { .. }),
            };
            assert!(kept, "C14:consts:stray-constants-keep-the-state");
            assert!(st.insert_consts_calls == 0 && st.check_consts_calls == 0, "C14:consts:stray-constants-are-not-inserted");
            assert!(answer(CONSTS, false) == (E_INVALID_STATE, 1), "C14:consts:stray-constants-are-answered-with-an-invalid-state-error");
            assert!(answer(VALIDATE, true) == (NONE, 0), "C14:consts:a-pending-validate-is-not-answered-by-stray-constants");
            kani::cover!(true, "reachable");
            std::mem::forget(st);
        }
        ControlFlow::Break(()) => assert!(false, "C14:consts:stray-constants-do-not-stop-the-state-machine"),
    }
}

#[kani::proof]
#[kani::unwind(5)]
#[kani::stub(std::fmt::format, no_format)]
#[kani::stub(std::collections::hash_map::RandomState::new, env_random_state)]
fn c14_consts_before_schedule() {
    consts_in_wrong_state(0)
}

#[kani::proof]
#[kani::unwind(5)]
#[kani::stub(std::fmt::format, no_format)]
#[kani::stub(std::collections::hash_map::RandomState::new, env_random_state)]
fn c14_consts_before_validation() {
    consts_in_wrong_state(1)
}

#[kani::proof]
#[kani::unwind(5)]
#[kani::stub(std::fmt::format, no_format)]
#[kani::stub(std::collections::hash_map::RandomState::new, env_random_state)]
fn c14_consts_while_executing() {
    consts_in_wrong_state(2)
}

// ------------------------------------------------------------------------------------------ failing RPCs (C17)

fn policy_with_output(has_out: bool) -> Policy {
    let mut p = fake_policy(0, 0);
    if has_out {
        p.output = Some(url::Url::parse("a:b").expect("parses"));
    }
    p
}

/// C17 - the leader's schedule() behind the validate round. A failed validate round: the caller
/// gets ValidateFailed, no permit is taken, the machine ends. A failed run round: the policy ends
/// at the leader (Break), the permit taken before the round is returned, the output destination
/// (if any) gets exactly one error, and the leader does not hand over to run(). Both rounds fine:
/// permit held, Validated, Run enqueued, nothing sent to the output destination.
fn leader_rpcs(has_out: bool) {
    let vf: bool = kani::any();
    let rf: bool = kani::any();
    reset_answers();
    unsafe {
        ENV_VALIDATE_FAILS = vf;
        ENV_RUN_FAILS = rf;
    }
    let flow = seg_sc_leader_rpcs(EnvState::new(PolicyStateKind::Init), policy_with_output(has_out), open_ret(), fake_typed_program(), NoClient);
    let (taken, returned, outputs, out_err, cmd, cmds) = unsafe { (ENV_PERMITS_TAKEN, ENV_PERMITS_RETURNED, ENV_OUTPUTS, ENV_OUTPUT_WAS_ERR, ENV_CMD, ENV_CMDS) };
    if vf {
        assert!(answer(SCHEDULE, false) == (E_VALIDATE_FAILED, 1), "C17:schedule:failed-validate-call-is-reported-to-the-schedule-caller");
        assert!(matches!(flow, ControlFlow::Break(())), "C17:schedule:policy-ends-at-the-leader-when-a-validate-call-fails");
        assert!(taken == returned && cmds == 0, "C17:schedule:no-permit-is-kept-and-no-run-is-started-after-a-failed-validate-call");
        std::mem::forget(flow);
    } else if rf {
        assert!(answer(SCHEDULE, false) == (OK, 1), "C17:schedule:schedule-is-answered-after-the-validate-round");
        assert!(matches!(flow, ControlFlow::Break(())), "C17:schedule:policy-ends-at-the-leader-when-a-run-call-fails");
        assert!(taken == 1 && returned == 1, "C17:schedule:permit-is-returned-when-a-run-call-fails");
        assert!(cmds == 0, "C17:schedule:leader-does-not-start-its-own-run-after-a-failed-run-call");
        assert!(outputs == has_out as u8 && (!has_out || out_err), "C17:schedule:output-destination-gets-exactly-one-error-when-a-run-call-fails");
        std::mem::forget(flow);
    } else {
        match flow {
            ControlFlow::Continue(st) => {
                assert!(answer(SCHEDULE, false) == (OK, 1), "C17:schedule:schedule-is-answered-after-the-validate-round");
                assert!(taken == 1 && returned == 0 && st.permit.is_some(), "C17:schedule:leader-holds-exactly-one-permit-while-the-policy-runs");
                assert!(matches!(st.state_kind, PolicyStateKind::Validated { .. }) && cmd == CMD_RUN && cmds == 1, "C17:schedule:leader-hands-over-to-run");
                assert!(outputs == 0, "C17:schedule:nothing-is-sent-to-the-output-destination-yet");
                std::mem::forget(st);
            }
            ControlFlow::Break(()) => assert!(false, "C17:schedule:policy-keeps-running-when-all-calls-succeed"),
        }
    }
}

#[kani::proof]
#[kani::unwind(5)]
#[kani::stub(std::fmt::format, no_format)]
#[kani::stub(std::collections::hash_map::RandomState::new, env_random_state)]
fn c17_leader_rpc_failures_without_output_destination() {
    leader_rpcs(false);
    kani::cover!(unsafe { ENV_RUN_FAILS && !ENV_VALIDATE_FAILS }, "run_failure_reachable");
    kani::cover!(unsafe { ENV_VALIDATE_FAILS }, "validate_failure_reachable");
    kani::cover!(unsafe { !ENV_RUN_FAILS && !ENV_VALIDATE_FAILS }, "success_reachable");
}

#[kani::proof]
#[kani::unwind(5)]
#[kani::stub(std::fmt::format, no_format)]
#[kani::stub(std::collections::hash_map::RandomState::new, env_random_state)]
fn c17_leader_rpc_failures_with_output_destination() {
    leader_rpcs(true);
    kani::cover!(unsafe { ENV_RUN_FAILS && !ENV_VALIDATE_FAILS }, "run_failure_reachable");
    kani::cover!(unsafe { ENV_VALIDATE_FAILS }, "validate_failure_reachable");
    kani::cover!(unsafe { !ENV_RUN_FAILS && !ENV_VALIDATE_FAILS }, "success_reachable");
}

/// C17 - the task that sends this party's constants. A failed constants round: the output
/// destination (if any) gets exactly one error and the policy ends at this party: the task
/// reports Stop/Cancel to the actor or does not hand the client back (internal_consts_sent() then
/// stops the machine) - it does not report InternalConstsSent with the client as after success.
fn consts_task(has_out: bool) {
    let cf: bool = kani::any();
    reset_answers();
    unsafe { ENV_CONSTS_FAIL = cf };
    let (tx, mut rx) = oneshot::channel::<NoClient>();
    seg_sc_consts_task(NoClient, policy_with_output(has_out), tx, EnvCmdTx);
    let client_back = rx.try_recv().is_ok();
    let (outputs, out_err, cmd, cmds) = unsafe { (ENV_OUTPUTS, ENV_OUTPUT_WAS_ERR, ENV_CMD, ENV_CMDS) };
    if cf {
        assert!(outputs == has_out as u8 && (!has_out || out_err), "C17:consts:output-destination-gets-exactly-one-error-when-a-constants-call-fails");
        let ends = cmd == CMD_STOP || cmd == CMD_CANCEL || (cmd == CMD_INTERNAL_CONSTS_SENT && !client_back);
        assert!(cmds == 1 && ends, "C17:consts:policy-ends-at-the-caller-when-a-constants-call-fails");
    } else {
        assert!(client_back && cmd == CMD_INTERNAL_CONSTS_SENT && cmds == 1 && outputs == 0, "C17:consts:successful-constants-round-continues-the-run");
    }
    std::mem::forget(rx);
}

#[kani::proof]
#[kani::unwind(5)]
#[kani::stub(std::fmt::format, no_format)]
#[kani::stub(std::collections::hash_map::RandomState::new, env_random_state)]
fn c17_consts_rpc_failure_without_output_destination() {
    consts_task(false);
    kani::cover!(unsafe { ENV_CONSTS_FAIL }, "failure_reachable");
    kani::cover!(unsafe { !ENV_CONSTS_FAIL }, "success_reachable");
}

#[kani::proof]
#[kani::unwind(5)]
#[kani::stub(std::fmt::format, no_format)]
#[kani::stub(std::collections::hash_map::RandomState::new, env_random_state)]
fn c17_consts_rpc_failure_with_output_destination() {
    consts_task(true);
    kani::cover!(unsafe { ENV_CONSTS_FAIL }, "failure_reachable");
    kani::cover!(unsafe { !ENV_CONSTS_FAIL }, "success_reachable");
}

// ------------------------------------------------------------------------------------------ cancel() while executing (C15)

/// C15 - cancel() is processed right after the MPC task was spawned: the task has not been polled
/// yet, so it has neither registered for the cancel notification nor acknowledged anything.
/// cancel() must not complete (answer Ok) before the task acknowledges, and the cancellation
/// must not be lost: the task's first look at the cancel notification finds it.
#[kani::proof]
#[kani::unwind(4)]
#[kani::stub(std::fmt::format, no_format)]
fn c15_cancel_before_the_mpc_task_was_polled() {
    let cancel = Arc::new(Notify::new());
    let cancelled = Arc::new(Notify::new());
    reset_answers();
    let done = seg_sc_cancel_executing(Arc::clone(&cancel), Arc::clone(&cancelled), open_ret());
    assert!(answer(CANCEL, false) == (NONE, 0), "C15:cancel:not-answered-before-the-mpc-task-acknowledged");
    assert!(done.is_none(), "C15:cancel:waits-for-the-mpc-task-to-acknowledge");
    // the spawned task's select! now polls cancel.notified() for the first time
    let seen = cancel.notified().env_try().is_some();
    assert!(seen, "C15:cancel:the-cancellation-reaches-a-task-that-registers-later");
    kani::cover!(true, "reachable");
    std::mem::forget((cancel, cancelled));
}

/// Counterpart: the task has already sent its one notification and acknowledged (it finished, or
/// it was cancelled); cancel() completes and answers Ok exactly once.
#[kani::proof]
#[kani::unwind(4)]
#[kani::stub(std::fmt::format, no_format)]
fn c15_cancel_after_the_mpc_task_acknowledged() {
    let cancel = Arc::new(Notify::new());
    let cancelled = Arc::new(Notify::new());
    // what the task does behind its select!
    cancelled.notify_one();
    reset_answers();
    let done = seg_sc_cancel_executing(Arc::clone(&cancel), Arc::clone(&cancelled), open_ret());
    assert!(done.is_some() && answer(CANCEL, false) == (OK, 1), "C15:cancel:completes-with-Ok-once-the-task-has-acknowledged");
    kani::cover!(true, "reachable");
    std::mem::forget((cancel, cancelled));
}

// ------------------------------------------------------------------------------------------ more of C14 / C16

/// C14 - a run request in a state that cannot run (not validated yet / already executing): the
/// arm of run() that takes these states answers InvalidState (if the request has a reply
/// channel), keeps the state and the endpoints, and the machine keeps running.
fn run_in_wrong_state(executing_state: bool, with_reply: bool) {
    reset_answers();
    let st = if executing_state { EnvState::executing() } else { EnvState::new(PolicyStateKind::Init) };
    // run() takes the state out of the machine before matching on it
    let mut st = st;
    let state = std::mem::take(&mut st.state_kind);
    let flow = seg_sc_run_fallback(st, state, RunRequest { computation_id: Uuid::nil() }, if with_reply { Some(open_ret()) } else { None });
    match flow {
        ControlFlow::Continue(st) => {
            let kept = if executing_state { matches!(st.state_kind, PolicyStateKind::Executing { .. }) && st.endpoints_untouched() } else { matches!(st.state_kind, PolicyStateKind::Init) };
            assert!(kept, "C14:run:stray-run-keeps-the-state-and-the-endpoints");
            assert!(answer(RUN, false) == if with_reply { (E_INVALID_STATE, 1) } else { (NONE, 0) }, "C14:run:stray-run-is-answered-with-an-invalid-state-error");
            assert!(unsafe { ENV_CMDS } == 0 && unsafe { ENV_OUTPUTS } == 0, "C14:run:stray-run-starts-nothing");
            kani::cover!(true, "reachable");
            std::mem::forget(st);
        }
        ControlFlow::Break(()) => assert!(false, "C14:run:stray-run-does-not-stop-the-state-machine"),
    }
}

#[kani::proof]
#[kani::unwind(5)]
#[kani::stub(std::fmt::format, no_format)]
#[kani::stub(std::collections::hash_map::RandomState::new, env_random_state)]
fn c14_run_before_schedule() {
    run_in_wrong_state(false, true)
}

#[kani::proof]
#[kani::unwind(5)]
#[kani::stub(std::fmt::format, no_format)]
#[kani::stub(std::collections::hash_map::RandomState::new, env_random_state)]
fn c14_run_while_executing() {
    run_in_wrong_state(true, true)
}

#[kani::proof]
#[kani::unwind(5)]
#[kani::stub(std::fmt::format, no_format)]
#[kani::stub(std::collections::hash_map::RandomState::new, env_random_state)]
fn c14_internal_run_while_executing() {
    run_in_wrong_state(true, false)
}

/// C16 - a policy whose program does not type-check is refused by its own party's schedule call
/// before anything else happens (no endpoints, no client, no state change); one that does is
/// passed on.
#[kani::proof]
#[kani::unwind(5)]
#[kani::stub(std::fmt::format, no_format)]
#[kani::stub(std::collections::hash_map::RandomState::new, env_random_state)]
fn c16_ill_typed_program_is_refused_first() {
    let fails: bool = kani::any();
    reset_answers();
    unsafe {
        ENV_TYPE_CHECK_FAILS = fails;
        ENV_TYPE_CHECK_PASSED = false;
    }
    let flow = seg_sc_schedule_head(EnvState::new(PolicyStateKind::Init), fake_policy(kani::any(), kani::any()), open_ret());
    let passed = unsafe { ENV_TYPE_CHECK_PASSED };
    if fails {
        assert!(answer(SCHEDULE, false) == (E_INVALID_PROGRAM, 1), "C16:schedule:ill-typed-program-is-refused-with-an-error");
        assert!(matches!(flow, ControlFlow::Break(())) && !passed, "C16:schedule:ill-typed-program-ends-the-policy-before-anything-else");
        std::mem::forget(flow);
    } else {
        assert!(answer(SCHEDULE, false) == (NONE, 0) && passed, "C16:schedule:well-typed-program-is-passed-on");
        match flow {
            ControlFlow::Continue(st) => {
                assert!(st.init_channel_calls == 0 && matches!(st.state_kind, PolicyStateKind::Init), "C16:schedule:nothing-happens-before-the-type-check");
                std::mem::forget(st);
            }
            ControlFlow::Break(()) => assert!(false, "C16:schedule:well-typed-program-is-passed-on"),
        }
    }
    kani::cover!(fails, "ill_typed_reachable");
    kani::cover!(!fails, "well_typed_reachable");
}

/// C16 - the leader's side: when a follower refuses the validate request, the leader's schedule
/// call ends with ValidateFailed, the policy ends, no run is requested (no MPC traffic can start).
#[kani::proof]
#[kani::unwind(5)]
#[kani::stub(std::fmt::format, no_format)]
#[kani::stub(std::collections::hash_map::RandomState::new, env_random_state)]
fn c16_leader_ends_when_a_follower_refuses() {
    reset_answers();
    unsafe {
        ENV_VALIDATE_FAILS = true;
        ENV_RUN_FAILS = kani::any();
    }
    let flow = seg_sc_leader_rpcs(EnvState::new(PolicyStateKind::Init), policy_with_output(false), open_ret(), fake_typed_program(), NoClient);
    assert!(answer(SCHEDULE, false) == (E_VALIDATE_FAILED, 1), "C16:schedule:leader-schedule-ends-with-an-error-when-a-follower-refuses");
    assert!(matches!(flow, ControlFlow::Break(())), "C16:schedule:leader-policy-ends-when-a-follower-refuses");
    assert!(unsafe { ENV_CMDS } == 0 && unsafe { ENV_PERMITS_TAKEN } == 0 && unsafe { ENV_OUTPUTS } == 0, "C16:schedule:no-run-is-requested-after-a-refused-validate");
    kani::cover!(true, "reachable");
    std::mem::forget(flow);
}

// ------------------------------------------------------------------------------------------ C14: every other state of a scheduled policy

/// C14 - one stray command against a machine in state `$state` (generated constructor, fields
/// read from the source): answered with InvalidState on its own reply channel only, same state
/// variant afterwards, endpoints untouched, nothing inserted / started, machine keeps running.
macro_rules! stray_in_state {
    ($name:ident, schedule, $state:ident, $taken:expr) => {
        #[kani::proof]
        #[kani::unwind(5)]
        #[kani::stub(std::fmt::format, no_format)]
        #[kani::stub(std::collections::hash_map::RandomState::new, env_random_state)]
        fn $name() {
            let is_leader: bool = kani::any();
            let (party, leader) = roles(is_leader);
            let st = EnvState::scheduled($state(), $taken);
            let before = std::mem::discriminant(&st.state_kind);
            reset_answers();
            let flow = seg_sc_schedule(st, fake_policy(party, leader), open_ret(), fake_typed_program(), is_leader);
            assert!(!unsafe { ENV_LEADER_PROCEEDS }, "C14:schedule:duplicate-leader-schedule-does-not-start-another-validation-round");
            match flow {
                ControlFlow::Continue(st) => {
                    assert!(st.scheduled_endpoints_untouched($taken), "C14:schedule:rejected-duplicate-leaves-the-mpc-channel-endpoints-untouched");
                    assert!(std::mem::discriminant(&st.state_kind) == before, "C14:schedule:rejected-duplicate-keeps-the-state");
                    assert!(answer(SCHEDULE, false) == (E_INVALID_STATE, 1) && answer(SCHEDULE, true) == (NONE, 0) && answer(VALIDATE, true) == (NONE, 0), "C14:schedule:duplicate-is-answered-with-an-invalid-state-error-and-nobody-else-is-answered");
                    kani::cover!(is_leader, "leader_duplicate_reachable");
                    kani::cover!(!is_leader, "follower_duplicate_reachable");
                    std::mem::forget(st);
                }
                ControlFlow::Break(()) => assert!(false, "C14:schedule:rejected-duplicate-does-not-stop-the-state-machine"),
            }
        }
    };
    ($name:ident, validate, $state:ident, $taken:expr) => {
        #[kani::proof]
        #[kani::unwind(5)]
        #[kani::stub(std::fmt::format, no_format)]
        #[kani::stub(std::collections::hash_map::RandomState::new, env_random_state)]
        fn $name() {
            let st = EnvState::scheduled($state(), $taken);
            let before = std::mem::discriminant(&st.state_kind);
            let req = ValidateRequest { computation_id: Uuid::nil(), program_hash: String::from("a"), leader: kani::any() };
            reset_answers();
            let flow = seg_sc_validate(st, req, open_ret());
            match flow {
                ControlFlow::Continue(st) => {
                    assert!(st.scheduled_endpoints_untouched($taken), "C14:validate:stray-validate-leaves-the-mpc-channel-endpoints-untouched");
                    assert!(std::mem::discriminant(&st.state_kind) == before, "C14:validate:stray-validate-keeps-the-state");
                    assert!(answer(VALIDATE, false) == (E_INVALID_STATE, 1) && answer(VALIDATE, true) == (NONE, 0) && answer(SCHEDULE, true) == (NONE, 0), "C14:validate:stray-validate-is-answered-with-an-invalid-state-error-and-nobody-else-is-answered");
                    kani::cover!(true, "reachable");
                    std::mem::forget(st);
                }
                ControlFlow::Break(()) => assert!(false, "C14:validate:stray-validate-does-not-stop-the-state-machine"),
            }
        }
    };
    ($name:ident, consts, $state:ident, $taken:expr) => {
        #[kani::proof]
        #[kani::unwind(5)]
        #[kani::stub(std::fmt::format, no_format)]
        #[kani::stub(std::collections::hash_map::RandomState::new, env_random_state)]
        fn $name() {
            let st = EnvState::scheduled($state(), $taken);
            let before = std::mem::discriminant(&st.state_kind);
            reset_answers();
            let flow = seg_sc_consts(st, fake_consts_request(kani::any()), open_ret());
            match flow {
                ControlFlow::Continue(st) => {
                    assert!(st.scheduled_endpoints_untouched($taken), "C14:consts:stray-constants-leave-the-mpc-channel-endpoints-untouched");
                    assert!(std::mem::discriminant(&st.state_kind) == before, "C14:consts:stray-constants-keep-the-state");
                    assert!(st.insert_consts_calls == 0 && st.check_consts_calls == 0, "C14:consts:stray-constants-are-not-inserted");
                    assert!(answer(CONSTS, false) == (E_INVALID_STATE, 1) && answer(SCHEDULE, true) == (NONE, 0) && answer(VALIDATE, true) == (NONE, 0), "C14:consts:stray-constants-are-answered-with-an-invalid-state-error-and-nobody-else-is-answered");
                    kani::cover!(true, "reachable");
                    std::mem::forget(st);
                }
                ControlFlow::Break(()) => assert!(false, "C14:consts:stray-constants-do-not-stop-the-state-machine"),
            }
        }
    };
}

stray_in_state!(c14_schedule_duplicate_in_awaiting_validation, schedule, state_awaiting_validation, false);
stray_in_state!(c14_schedule_duplicate_in_validated, schedule, state_validated, false);
stray_in_state!(c14_schedule_duplicate_in_sending_consts, schedule, state_sending_consts, false);
stray_in_state!(c14_schedule_duplicate_in_sending_consts_completed, schedule, state_sending_consts_completed, false);
stray_in_state!(c14_schedule_duplicate_in_running, schedule, state_running, true);
stray_in_state!(c14_validate_stray_in_validated, validate, state_validated, false);
stray_in_state!(c14_validate_stray_in_sending_consts, validate, state_sending_consts, false);
stray_in_state!(c14_validate_stray_in_sending_consts_completed, validate, state_sending_consts_completed, false);
stray_in_state!(c14_validate_stray_in_running, validate, state_running, true);
stray_in_state!(c14_consts_stray_in_awaiting_validation, consts, state_awaiting_validation, false);
stray_in_state!(c14_consts_stray_in_running, consts, state_running, true);

// ------------------------------------------------------------------------------------------ result delivery (C13)

/// stand-in for the compiled Garble program: decoding the output bits is not the subject
pub(crate) struct EnvCompiled;
impl EnvCompiled {
    fn parse_output(&self, _bits: &[bool]) -> Result<Literal, garble_lang::eval::EvalError> {
        Ok(Literal::True)
    }
}

/// C13 - the MPC task behind polytune::mpc(): a party with an output destination is sent exactly
/// one notification - the result if mpc() returned output bits, the error if it failed - a
/// party without one is sent nothing, and in every case the task then tells the actor to stop
/// (which ends the state machine and returns a leader's permit).
macro_rules! mpc_result {
    ($name:ident, $has_out:expr, $output:expr, $outputs:expr, $is_err:expr) => {
        #[kani::proof]
        #[kani::unwind(5)]
        #[kani::stub(std::fmt::format, no_format)]
        #[kani::stub(std::collections::hash_map::RandomState::new, env_random_state)]
        fn $name() {
            reset_answers();
            let channel = Channel { client: NoClient, party: 0, receivers: Vec::new() };
            let (cancel, cancelled) = (Arc::new(Notify::new()), Arc::new(Notify::new()));
            seg_sc_mpc_result(policy_with_output($has_out), channel, $output, EnvCompiled, EnvCmdTx, &cancel, &cancelled);
            std::mem::forget((cancel, cancelled));
            let (outputs, out_err, cmd, cmds) = unsafe { (ENV_OUTPUTS, ENV_OUTPUT_WAS_ERR, ENV_CMD, ENV_CMDS) };
            assert!(outputs == $outputs, "C13:mpc-task:output-destination-is-sent-exactly-one-notification-if-there-is-one-to-send");
            assert!(outputs == 0 || out_err == $is_err, "C13:mpc-task:the-notification-is-the-result-on-success-and-the-error-on-failure");
            assert!(cmds == 1 && cmd == CMD_STOP, "C13:mpc-task:the-state-machine-is-told-to-stop-exactly-once");
            kani::cover!(true, "reachable");
        }
    };
}
mpc_result!(c13_mpc_result_is_delivered_once, true, Ok(vec![true]), 1, false);
mpc_result!(c13_mpc_error_is_delivered_once, true, Err(polytune::Error::EmptyMsg), 1, true);
mpc_result!(c13_mpc_result_without_destination, false, Ok(vec![true]), 0, false);
mpc_result!(c13_mpc_error_without_destination, false, Err(polytune::Error::EmptyMsg), 0, true);

// ------------------------------------------------------------------------------------------ cancel() in every other state (C15)

/// `client_recv.await` in cancel(): polling tokio's oneshot Receiver makes the Kani compiler panic
/// (intrinsics.rs:243); the constants task has handed the client back (concrete: a symbolic verdict forks the whole
/// rest of the cut with a policy in flight and does not finish).
static mut ENV_CLIENT_BACK: bool = true;
fn env_client_recv(rx: oneshot::Receiver<NoClient>) -> Option<Result<NoClient, ()>> {
    std::mem::forget(rx);
    Some(if unsafe { ENV_CLIENT_BACK } { Ok(NoClient) } else { Err(()) })
}

fn with_destination(mut s: PolicyStateKind<NoClient>, has_out: bool) -> PolicyStateKind<NoClient> {
    if has_out {
        match &mut s {
            PolicyStateKind::AwaitingValidation { policy, .. }
            | PolicyStateKind::Validated { policy, .. }
            | PolicyStateKind::SendingConsts { policy, .. }
            | PolicyStateKind::SendingConstsCompleted { policy, .. }
            | PolicyStateKind::Running { policy, .. } => policy.output = Some(url::Url::parse("a:b").expect("parses")),
            _ => {}
        }
    }
    s
}

/// C15 - cancel() against a machine in state `$state` holding a leader's permit: once it answers
/// Ok, a party with an output destination and a scheduled policy has been sent exactly one
/// notification (an error: Cancelled), a party without one nothing, no command is enqueued, and
/// the permit is available again (cancel() consumes the machine).
macro_rules! cancel_in_state {
    ($name:ident, $state:expr, $has_policy:expr, $has_out:expr) => {
        #[kani::proof]
        #[kani::unwind(5)]
        #[kani::stub(std::fmt::format, no_format)]
        #[kani::stub(std::collections::hash_map::RandomState::new, env_random_state)]
        fn $name() {
            let mut st = EnvState::scheduled(with_destination($state, $has_out), false);
            reset_answers();
            st.permit = Some(EnvPermit);
            let done = seg_sc_cancel(st, open_ret());
            let (outputs, out_err, cmds, returned) = unsafe { (ENV_OUTPUTS, ENV_OUTPUT_WAS_ERR, ENV_CMDS, ENV_PERMITS_RETURNED) };
            assert!(done.is_some(), "C15:cancel:completes-in-a-state-without-a-running-mpc-task");
            let (what, n) = answer(CANCEL, false);
            assert!(n == 1, "C15:cancel:is-answered-exactly-once");
            if what == OK {
                let expected = ($has_policy && $has_out) as u8;
                assert!(outputs == expected && (expected == 0 || out_err), "C15:cancel:destination-is-sent-exactly-one-cancelled-notification-if-there-is-one");
            }
            assert!(cmds == 0, "C15:cancel:enqueues-nothing");
            assert!(returned == 1, "C15:cancel:the-permit-is-available-again");
            kani::cover!(what == OK, "answered_ok_reachable");
        }
    };
}
cancel_in_state!(c15_cancel_in_init, PolicyStateKind::Init, false, false);
cancel_in_state!(c15_cancel_in_validate_requested, state_validate_requested(), false, false);
cancel_in_state!(c15_cancel_in_validated_with_destination, state_validated(), true, true);
cancel_in_state!(c15_cancel_in_validated_without_destination, state_validated(), true, false);
cancel_in_state!(c15_cancel_in_running_with_destination, state_running(), true, true);
// (states SendingConsts, SendingConstsCompleted, AwaitingValidation: dropping the rest of the state -
// a TypedProgram / a pending schedule reply - does not finish under CBMC (418 s .. > 900 s): outside the claim)

// ------------------------------------------------------------------------------------------ the MPC task's side of a cancellation (C15)

/// C15 - the spawned task when the cancel notification wins: it sends the one Cancelled
/// notification (if there is a destination) and only THEN acknowledges towards cancel(), exactly
/// once; cancel() therefore cannot return Ok before the notification is out.
/// A client that knows the task's acknowledgement Notify: when the Cancelled notification is
/// sent it records whether the task had already acknowledged towards cancel().
pub(crate) struct AckClient {
    ack: Arc<Notify>,
}
impl PolicyClient for AckClient {
    type Error = NoClientErr;
    async fn validate(&self, _to: usize, _r: ValidateRequest) -> Result<(), NoClientErr> {
        Ok(())
    }
    async fn run(&self, _to: usize, _r: RunRequest) -> Result<(), NoClientErr> {
        Ok(())
    }
    async fn consts(&self, _to: usize, _r: ConstsRequest) -> Result<(), NoClientErr> {
        Ok(())
    }
    async fn msg(&self, _to: usize, _r: MpcMsg) -> Result<(), NoClientErr> {
        Ok(())
    }
    fn output(&self, to: url::Url, r: Result<Literal, OutputError>) -> impl std::future::Future<Output = Result<(), NoClientErr>> + Send {
        unsafe {
            ENV_OUTPUTS += 1;
            ENV_OUTPUT_WAS_ERR = r.is_err();
            if self.ack.notified().env_try().is_some() {
                ENV_ACKED_BEFORE_OUTPUT = true;
                self.ack.notify_one();
            }
        }
        std::mem::forget((to, r));
        std::future::ready(Ok(()))
    }
}
/// the part of the task's Channel the arm uses (the real one also holds the tokio receivers)
pub(crate) struct EnvChannel {
    client: AckClient,
}

macro_rules! task_cancel_arm {
    ($name:ident, $has_out:expr) => {
        #[kani::proof]
        #[kani::unwind(5)]
        #[kani::stub(std::fmt::format, no_format)]
        #[kani::stub(std::collections::hash_map::RandomState::new, env_random_state)]
        fn $name() {
            let cancel = Arc::new(Notify::new());
            let cancelled = Arc::new(Notify::new());
            reset_answers();
            unsafe {
                ENV_ACKED_BEFORE_OUTPUT = false;
            }
            seg_sc_task_cancel_arm(EnvChannel { client: AckClient { ack: Arc::clone(&cancelled) } }, policy_with_output($has_out), &cancel, &cancelled, EnvCmdTx);
            let (outputs, out_err, early) = unsafe { (ENV_OUTPUTS, ENV_OUTPUT_WAS_ERR, ENV_ACKED_BEFORE_OUTPUT) };
            assert!(outputs == $has_out as u8 && (!$has_out || out_err), "C15:task:destination-is-sent-exactly-one-cancelled-notification-if-there-is-one");
            assert!(!early, "C15:task:acknowledges-only-after-the-notification-was-sent");
            let acked = cancelled.notified().env_try().is_some();
            assert!(acked, "C15:task:acknowledges-towards-cancel");
            let twice = cancelled.notified().env_try().is_some();
            assert!(!twice, "C15:task:acknowledges-once");
            kani::cover!(true, "reachable");
            std::mem::forget((cancel, cancelled));
        }
    };
}
task_cancel_arm!(c15_task_cancel_arm_with_destination, true);
task_cancel_arm!(c15_task_cancel_arm_without_destination, false);

// ------------------------------------------------------------------------------------------ the permit across run() (C17)

/// C17 - the leader's permit is taken in schedule() and must stay with the machine until the MPC
/// task takes it over in state Running: whatever run() does before it dispatches on the state
/// (it is entered first in state Validated) neither takes the permit out of the machine nor
/// returns it.
#[kani::proof]
#[kani::unwind(5)]
#[kani::stub(std::fmt::format, no_format)]
#[kani::stub(std::collections::hash_map::RandomState::new, env_random_state)]
fn c17_run_entry_keeps_the_permit() {
    let mut st = EnvState::scheduled(state_validated(), false);
    reset_answers();
    st.permit = Some(EnvPermit);
    let req = RunRequest { computation_id: Uuid::nil() };
    let ret: Option<Ret<RunError>> = None;
    seg_sc_run_head(&mut st, &req, &ret);
    assert!(st.permit.is_some(), "C17:run:the-permit-stays-with-the-machine-until-the-mpc-task-takes-it");
    assert!(unsafe { ENV_PERMITS_RETURNED } == 0, "C17:run:the-permit-is-not-returned-while-the-policy-is-live");
    assert!(matches!(st.state_kind, PolicyStateKind::Validated { .. }), "C17:run:nothing-happens-to-the-state-before-the-dispatch");
    kani::cover!(true, "reachable");
    std::mem::forget(st);
}

/// C15 - once the task has sent its one notification (result or error) nothing may follow: the
/// task's mpc future must be finished with that, so that the select! cannot switch to the
/// cancel arm afterwards (which would send Cancelled as a second notification). Environment:
/// the actor's command queue is full, so enqueuing anything would wait.
macro_rules! nothing_after_the_notification {
    ($name:ident, $output:expr) => {
        #[kani::proof]
        #[kani::unwind(5)]
        #[kani::stub(std::fmt::format, no_format)]
        #[kani::stub(std::collections::hash_map::RandomState::new, env_random_state)]
        fn $name() {
            reset_answers();
            unsafe { ENV_QUEUE_FULL = true };
            let channel = Channel { client: NoClient, party: 0, receivers: Vec::new() };
            let finished = seg_sc_mpc_result_then(policy_with_output(true), channel, $output, EnvCompiled, EnvCmdTx);
            let outputs = unsafe { ENV_OUTPUTS };
            assert!(outputs == 1, "C15:task:the-notification-is-sent-whatever-the-state-of-the-command-queue");
            assert!(finished.is_some(), "C15:task:no-await-behind-the-notification-at-which-a-cancel-could-still-win");
            kani::cover!(true, "reachable");
        }
    };
}
nothing_after_the_notification!(c15_nothing_can_follow_the_result, Ok(vec![true]));
nothing_after_the_notification!(c15_nothing_can_follow_the_error, Err(polytune::Error::EmptyMsg));

// ------------------------------------------------------------------------------------------ constants from an unknown party (C14)

fn two_party_state(which: u8) -> PolicyStateKind<NoClient> {
    let mut s = match which {
        0 => state_validated(),
        1 => state_sending_consts(),
        _ => state_sending_consts_completed(),
    };
    match &mut s {
        PolicyStateKind::Validated { policy, .. } | PolicyStateKind::SendingConsts { policy, .. } | PolicyStateKind::SendingConstsCompleted { policy, .. } => {
            policy.participants = vec![url::Url::parse("a:b").expect("parses"), url::Url::parse("a:c").expect("parses")];
        }
        _ => {}
    }
    s
}

/// C14 - constants "from" a party index outside the policy's participants, in the states that
/// accept constants: answered with an error, nothing stored, no compilation triggered, state
/// kept, machine keeps running. An index inside is accepted (counterpart).
macro_rules! consts_sender_index {
    ($name:ident, $which:expr) => {
        #[kani::proof]
        #[kani::unwind(5)]
        #[kani::stub(std::fmt::format, no_format)]
        #[kani::stub(std::collections::hash_map::RandomState::new, env_random_state)]
        fn $name() {
            let from: usize = kani::any();
            let st = EnvState::scheduled(two_party_state($which), false);
            let before = std::mem::discriminant(&st.state_kind);
            reset_answers();
            let flow = seg_sc_consts(st, fake_consts_request(from), open_ret());
            match flow {
                ControlFlow::Continue(st) => {
                    let (what, n) = answer(CONSTS, false);
                    assert!(n == 1, "C14:consts:answered-exactly-once");
                    if from >= 2 {
                        assert!(what != OK && what != NONE, "C14:consts:constants-from-an-unknown-party-are-answered-with-an-error");
                        assert!(st.insert_consts_calls == 0 && st.check_consts_calls == 0, "C14:consts:constants-from-an-unknown-party-are-not-stored-and-trigger-nothing");
                        assert!(std::mem::discriminant(&st.state_kind) == before, "C14:consts:constants-from-an-unknown-party-keep-the-state");
                    } else {
                        assert!(what == OK && st.insert_consts_calls == 1, "C14:consts:constants-from-a-participant-are-accepted");
                    }
                    kani::cover!(from >= 2, "unknown_party_reachable");
                    kani::cover!(from < 2, "participant_reachable");
                    std::mem::forget(st);
                }
                ControlFlow::Break(()) => assert!(false, "C14:consts:does-not-stop-the-state-machine"),
            }
        }
    };
}
consts_sender_index!(c14_consts_sender_index_in_validated, 0);
consts_sender_index!(c14_consts_sender_index_in_sending_consts, 1);
consts_sender_index!(c14_consts_sender_index_in_sending_consts_completed, 2);
