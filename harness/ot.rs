// Kani harnesses appended (as child module `__verif`) to src/ot.rs.
#![allow(unused_imports, dead_code, clippy::all)]
use super::*;

include!("/verif/harness/common.rs");

/// The byte-order convention that ties `delta` in fabitn (Block::from(delta.to_be_bytes()))
/// to the keys and MACs coming out of OT (block_to_u128): the two conversions are inverse,
/// for all 2^128 values, and XOR commutes with them (so key ^ delta on Blocks is key ^ delta
/// on u128).
#[kani::proof]
#[kani::unwind(18)]
fn c11_block_u128_byte_order() {
    let x: u128 = kani::any();
    let y: u128 = kani::any();
    let bx = Block::from(x.to_be_bytes());
    let by = Block::from(y.to_be_bytes());
    assert!(block_to_u128(bx) == x, "C11:block_to_u128(Block::from(x.to_be_bytes()))==x");
    assert!(block_to_u128(bx ^ by) == x ^ y, "C11:block-xor-commutes-with-conversion");
    let arr: [u8; 16] = kani::any();
    let b = Block::from(arr);
    assert!(block_to_u128(b).to_be_bytes() == arr, "C11:block_to_u128-is-big-endian-over-the-block-bytes");
    kani::cover!(x >> 127 == 1, "byte_order_top_bit_reachable");
}
