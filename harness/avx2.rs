// Kani harnesses appended (as child module `__verif`) to src/transpose/avx2.rs.
#![allow(unused_imports, dead_code, clippy::all)]
use super::*;

include!("/verif/harness/common.rs");

/// What the 128x128 butterfly leaves in the first 2048 bytes of the buffer (row k of the
/// transposed square = bytes 16k..16k+16): chosen by the harness. The butterfly itself is
/// outside the claim (DESIGN C20); here only the data movement around it is checked.
static mut ENV_T: [u8; 256] = [0; 256]; // first 16 transposed rows (c_rest <= 16 in the harness)
static mut ENV_IN: [u8; 256] = [0; 256]; // what the butterfly was given: 128 rows x 2 bytes

fn env_transpose128(sq: &mut [__m256i; 64]) {
    let bytes: &mut [u8] = must_cast_slice_mut(&mut sq[..]);
    unsafe {
        let mut k = 0;
        while k < 128 {
            ENV_IN[2 * k] = bytes[16 * k];
            ENV_IN[2 * k + 1] = bytes[16 * k + 1];
            k += 1;
        }
        let mut b = 0;
        while b < 256 {
            bytes[b] = ENV_T[b];
            b += 1;
        }
    }
}

include!("/verif/harness/segs_avx2.rs");

/// C20 - AVX2 path, rest-column handling (columns not divisible by 128) for a 256 x 16 matrix
/// (2 row blocks, out_stride 32), row block `i`: the 128 input rows are loaded into the
/// butterfly's buffer at 16-byte row stride, and transposed row k is stored to output row k at
/// byte offset 16*i with the OUTPUT stride - so the two row blocks land side by side. The data
/// are fixed distinct byte patterns (the claim is about addressing, not about values).
fn avx2_rest_cols_256x16(i: usize) {
    let mut input = [0u8; 512]; // 256 rows x 2 bytes
    let mut b = 0;
    while b < 512 {
        input[b] = (b % 251) as u8;
        b += 1;
    }
    let mut output = [0u8; 512]; // 16 rows x 32 bytes
    let mut t = [0u8; 256];
    let mut b = 0;
    while b < 256 {
        t[b] = (255 - (b % 241)) as u8;
        b += 1;
    }
    unsafe {
        ENV_T = t;
    }
    let mut buf: [__m256i; 256] = unsafe { std::mem::zeroed() };
    unsafe { seg_avx2_rest_cols(&input, &mut output, &mut buf, 2, 32, 16, i, 0) };
    let mut ok_in = true;
    let mut k = 0;
    while k < 128 {
        unsafe {
            ok_in &= ENV_IN[2 * k] == input[(128 * i + k) * 2] && ENV_IN[2 * k + 1] == input[(128 * i + k) * 2 + 1];
        }
        k += 1;
    }
    assert!(ok_in, "C20:avx2-rest-cols:butterfly-input-row-k==input-row-(128i+k)");
    let mut ok_out = true;
    let mut k = 0;
    while k < 16 {
        let mut b = 0;
        while b < 16 {
            ok_out &= output[k * 32 + 16 * i + b] == t[16 * k + b];
            ok_out &= output[k * 32 + 16 * (1 - i) + b] == 0;
            b += 1;
        }
        k += 1;
    }
    assert!(ok_out, "C20:avx2-rest-cols:transposed-row-k-stored-at-output-row-k-with-output-stride");
    kani::cover!(ok_in && ok_out, "rest_cols_reachable");
}

#[kani::proof]
#[kani::unwind(514)]
#[kani::stub(std::fmt::format, no_format)]
fn c20_avx2_rest_cols_256x16_block0() {
    avx2_rest_cols_256x16(0);
}

#[kani::proof]
#[kani::unwind(514)]
#[kani::stub(std::fmt::format, no_format)]
fn c20_avx2_rest_cols_256x16_block1() {
    avx2_rest_cols_256x16(1);
}
