// Shared helpers for every Kani harness module (included textually with `include!`).
// Nothing here touches polytune code; these are input generators and stubs only.

#[allow(dead_code)]
pub(crate) fn no_format(_args: std::fmt::Arguments<'_>) -> String {
    // stub for std::fmt::format: error-message building is not the subject (DESIGN §1)
    String::new()
}

#[allow(dead_code)]
pub(crate) fn any_u128() -> u128 {
    kani::any()
}

/// `Vec<usize>` of symbolic length 0..=3 with symbolic entries; each length class is a
/// separately allocated literal (no growth / reallocation, see DESIGN "engineering rules").
#[allow(dead_code)]
pub(crate) fn any_vec_usize_le3() -> Vec<usize> {
    let l: u8 = kani::any();
    match l {
        0 => vec![],
        1 => vec![kani::any()],
        2 => vec![kani::any(), kani::any()],
        _ => vec![kani::any(), kani::any(), kani::any()],
    }
}

#[allow(dead_code)]
pub(crate) fn any_vec_bool_le3() -> Vec<bool> {
    let l: u8 = kani::any();
    match l {
        0 => vec![],
        1 => vec![kani::any()],
        2 => vec![kani::any(), kani::any()],
        _ => vec![kani::any(), kani::any(), kani::any()],
    }
}
