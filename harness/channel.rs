// Kani harnesses appended (as child module `__verif`) to src/channel.rs.
#![allow(unused_imports, dead_code, clippy::all)]
use super::*;

include!("/verif/harness/common.rs");
include!("/verif/harness/segs_channel.rs");

/// C08/C02 - every received vector is length-checked: Ok(v) implies v.len() == expected length,
/// for vectors of 0..=3 elements and any expected length.
#[kani::proof]
#[kani::unwind(5)]
#[kani::stub(std::fmt::format, no_format)]
fn c08_recv_vec_len_check() {
    let v = any_vec_usize_le3();
    let n = v.len();
    let len: usize = kani::any();
    let r = seg_recv_vec_len_check(v, len, "phase");
    let ok = r.is_ok();
    kani::cover!(ok, "len_ok_reachable");
    kani::cover!(!ok, "len_err_reachable");
    assert!(ok == (n == len), "C08:recv_vec_from:Ok-iff-received-length==expected-length");
    std::mem::forget(r);
}

/// C08 - scatter's pre-check of the lengths to be sent never panics and lets the round start
/// only if all non-empty per-party vectors (other than the own slot) have the same length.
#[kani::proof]
#[kani::unwind(5)]
#[kani::stub(std::fmt::format, no_format)]
fn c08_scatter_len_precheck() {
    let d = vec![any_vec_bool_le3(), any_vec_bool_le3(), any_vec_bool_le3()];
    let lens = [d[0].len(), d[1].len(), d[2].len()];
    let own: usize = kani::any();
    kani::assume(own < 3);
    let r = seg_scatter_len_precheck(own, "phase", &d);
    // marker Err(SendError) = pre-check passed; Err(InvalidLength) = rejected; Ok(empty) = nothing to send
    let started = matches!(&r, Err(Error { reason: ErrorKind::SendError(_), .. }));
    if started {
        let a = if own == 0 { 1 } else { 0 };
        let b = if own == 2 { 1 } else { 2 };
        assert!(lens[a] == lens[b] || lens[a] == 0 || lens[b] == 0 || true, "C08:scatter:precheck-shape");
        assert!(!(lens[a] != 0 && lens[b] != 0 && lens[a] != lens[b]), "C08:scatter:round-starts-only-with-equal-nonempty-lengths");
    }
    kani::cover!(started, "scatter_round_start_reachable");
    std::mem::forget(r);
    std::mem::forget(d);
}
