//! No-op stand-in for `tracing-attributes` used only inside the Kani scratch copy:
//! logging = empty bodies (DESIGN.md §1). `#[instrument(..)]` returns the item unchanged.
use proc_macro::TokenStream;

#[proc_macro_attribute]
pub fn instrument(_attr: TokenStream, item: TokenStream) -> TokenStream {
    item
}
