//! No-op stand-in for `tracing` used only inside the Kani scratch copy:
//! logging = empty bodies (DESIGN.md §1). Arguments are not evaluated.
pub use tracing_attributes::instrument;

#[derive(Debug, Clone, Copy, PartialEq, Eq)]
pub struct Level(u8);
impl Level {
    pub const ERROR: Level = Level(1);
    pub const WARN: Level = Level(2);
    pub const INFO: Level = Level(3);
    pub const DEBUG: Level = Level(4);
    pub const TRACE: Level = Level(5);
}

#[macro_export]
macro_rules! trace { ($($t:tt)*) => {{}}; }
#[macro_export]
macro_rules! debug { ($($t:tt)*) => {{}}; }
#[macro_export]
macro_rules! info { ($($t:tt)*) => {{}}; }
#[macro_export]
macro_rules! warn { ($($t:tt)*) => {{}}; }
#[macro_export]
macro_rules! error { ($($t:tt)*) => {{}}; }

// ---- additional surface used by crates/polytune-server-core (spans are inert)
#[derive(Clone, Debug, Default)]
pub struct Span;
impl Span {
    pub fn record<V>(&self, _field: &str, _value: V) -> &Self {
        self
    }
    pub fn or_current(self) -> Self {
        self
    }
    pub fn current() -> Self {
        Span
    }
    pub fn none() -> Self {
        Span
    }
    pub fn in_scope<F: FnOnce() -> T, T>(&self, f: F) -> T {
        f()
    }
    pub fn enter(&self) -> Entered {
        Entered
    }
    pub fn entered(self) -> Entered {
        Entered
    }
}
pub struct Entered;
pub mod field {
    #[derive(Clone, Copy, Debug)]
    pub struct Empty;
}
pub trait Instrument: Sized {
    fn instrument(self, _span: Span) -> Self {
        self
    }
    fn in_current_span(self) -> Self {
        self
    }
}
impl<T> Instrument for T {}
#[macro_export]
macro_rules! trace_span { ($($t:tt)*) => {{ $crate::Span }}; }
#[macro_export]
macro_rules! debug_span { ($($t:tt)*) => {{ $crate::Span }}; }
#[macro_export]
macro_rules! info_span { ($($t:tt)*) => {{ $crate::Span }}; }
#[macro_export]
macro_rules! warn_span { ($($t:tt)*) => {{ $crate::Span }}; }
#[macro_export]
macro_rules! error_span { ($($t:tt)*) => {{ $crate::Span }}; }
