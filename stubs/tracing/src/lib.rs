//! No-op stand-in for `tracing` used only inside the Kani scratch copy:
//! logging = empty bodies (DESIGN.md §1). Arguments are not evaluated.
pub use tracing_attributes::instrument;

#[derive(Debug, Clone, Copy, PartialEq, Eq)]
pub struct Level(u8);
impl Level {
    pub const ERROR: Level = Level(1);
    pub const WARN: Level = Level(2);
    pub const INFO: Level = Level(3);
    pub const DEBUG: Level = Level(4);
    pub const TRACE: Level = Level(5);
}

#[macro_export]
macro_rules! trace { ($($t:tt)*) => {{}}; }
#[macro_export]
macro_rules! debug { ($($t:tt)*) => {{}}; }
#[macro_export]
macro_rules! info { ($($t:tt)*) => {{}}; }
#[macro_export]
macro_rules! warn { ($($t:tt)*) => {{}}; }
#[macro_export]
macro_rules! error { ($($t:tt)*) => {{}}; }
