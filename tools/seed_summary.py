#!/usr/bin/env python3
"""Write seeded/SUMMARY.md from seeded/*/meta.json and result.json, and copy the verdict into meta.json."""
import json
import os
import re

VERIF = os.path.dirname(os.path.dirname(os.path.abspath(__file__)))
rows = []
for sid in sorted(os.listdir(os.path.join(VERIF, "seeded"))):
    d = os.path.join(VERIF, "seeded", sid)
    if not os.path.isdir(d):
        continue
    meta = json.load(open(os.path.join(d, "meta.json"))) if os.path.exists(os.path.join(d, "meta.json")) else {}
    res = json.load(open(os.path.join(d, "result.json"))) if os.path.exists(os.path.join(d, "result.json")) else None
    caught = []
    verdict = "not run"
    if res:
        verdict = "MISSED"
        for p, v in res["checks"].items():
            hs = [re.search(r"harness=(\S+)", l).group(1) for l in v["lines"] if l.strip().startswith("harness=")]
            if v["exit"] == 1:
                verdict = "caught"
                caught.append(f"{p}: " + ", ".join(dict.fromkeys(hs)))
            elif v["exit"] == 2 and verdict != "caught":
                verdict = "inconclusive (exit 2)"
        meta["check_result"] = {"verdict": verdict, "caught_by": caught, "tier": res.get("tier"), "checks": {p: {"exit": v["exit"], "wall_s": v["wall_s"]} for p, v in res["checks"].items()}}
        json.dump(meta, open(os.path.join(d, "meta.json"), "w"), indent=1)
    if meta.get("thorough_check"):
        verdict += "; thorough: " + meta["thorough_check"]["verdict"]
        caught = caught + [c.split(" (")[0] + " [thorough]" for c in meta["thorough_check"].get("caught_by", [])]
    what = (meta.get("what") or "").replace("\n", " ")
    rows.append((sid, meta.get("property", sid.split("-")[0]), "yes" if meta.get("confirmed") else "no", verdict, "; ".join(caught), what[:230] + ("…" if len(what) > 230 else "")))
with open(os.path.join(VERIF, "seeded", "SUMMARY.md"), "w") as f:
    f.write("# Seeded changes and which checks catch them\n\n")
    f.write("Each change was written by a fresh sub-agent that saw only the property text and a scratch worktree, was confirmed independently (tools/confirm_seeds.py: compiles, existing tests pass, demonstration fails with / passes without) and was then run through the quick tier of the targeted property's check on a scratch copy of /repo (tools/seeds.py).\n\n")
    f.write("| seed | property | confirmed | quick check | caught by (harness) | change |\n|---|---|---|---|---|---|\n")
    for r in rows:
        f.write("| " + " | ".join(x.replace("|", "\\|") for x in r) + " |\n")
print(open(os.path.join(VERIF, "seeded", "SUMMARY.md")).read()[:3000])
