#!/usr/bin/env python3
"""Confirm the seeded changes independently of the sub-agents' reports, in a scratch git worktree
of /repo (outside /repo and /verif), and write seeded/<id>/meta.json:
  (a) clean + demo  => demonstration passes
  (b) clean + patch + demo => demonstration fails
  (c) clean + patch => builds, `cargo test -p polytune --lib` and the protocol tests pass."""
import json
import os
import re
import subprocess
import sys

VERIF = os.path.dirname(os.path.dirname(os.path.abspath(__file__)))
WT = "/tmp/seedchk/wt"
ENV = dict(os.environ, CARGO_TARGET_DIR="/tmp/seedchk/target", CARGO_NET_OFFLINE="true")


def sh(cmd, cwd=WT, timeout=3600):
    p = subprocess.run(cmd, shell=True, cwd=cwd, env=ENV, text=True, capture_output=True, timeout=timeout)
    return p.returncode, (p.stdout + p.stderr)


def summary(out):
    return "; ".join(re.findall(r"test result: [^\n]*", out))[:400]


def main():
    ids = sys.argv[1:] or sorted(d for d in os.listdir(os.path.join(VERIF, "seeded")) if os.path.isdir(os.path.join(VERIF, "seeded", d)))
    os.makedirs("/tmp/seedchk", exist_ok=True)
    for sid in ids:
        d = os.path.join(VERIF, "seeded", sid)
        if not os.path.exists(os.path.join(d, "patch.diff")):
            continue
        agent = json.load(open(os.path.join(d, "meta.agent.json")))
        demo_cmd = agent["demo_cmd"]
        demo_cmd = re.sub(r"CARGO_TARGET_DIR=\S+\s*", "", demo_cmd)
        demo_cmd = re.sub(r"cd \S+ && ", "", demo_cmd)
        subprocess.run(f"git -C /repo worktree remove --force {WT}", shell=True, capture_output=True)
        subprocess.run("git -C /repo worktree prune", shell=True)
        rc, out = sh(f"git -C /repo worktree add -f {WT} HEAD", cwd="/")
        ran = []
        ok = True
        rc, out = sh(f"git apply {d}/demo.diff")
        ran.append(f"git apply demo.diff -> {rc}")
        rc_a, out_a = sh(demo_cmd)
        ran.append(f"(a) clean+demo: `{demo_cmd}` -> exit {rc_a}; {summary(out_a)}")
        ok &= rc_a == 0
        rc, out = sh(f"git apply {d}/patch.diff")
        ran.append(f"git apply patch.diff -> {rc}")
        ok &= rc == 0
        rc_b, out_b = sh(demo_cmd)
        ran.append(f"(b) clean+patch+demo: -> exit {rc_b}; {summary(out_b)}")
        ok &= rc_b != 0 and "test result: FAILED" in out_b
        sh("git checkout -- . && git clean -fdq -e target")
        rc, out = sh(f"git apply {d}/patch.diff")
        if "crates/polytune-server-core" in open(os.path.join(d, "patch.diff")).read():
            # server-core seeds: its own suite (state::tests::basic_test + doctests)
            rc_c1, out_c1 = sh("cargo build --offline -p polytune-server-core")
            rc_c2, out_c2 = sh("cargo test --offline -p polytune-server-core")
            rc_c3, out_c3 = 0, ""
            ran.append(f"(c) clean+patch: cargo build -p polytune-server-core -> {rc_c1}; cargo test -p polytune-server-core -> exit {rc_c2}; {summary(out_c2)}")
        else:
            rc_c1, out_c1 = sh("cargo build --offline")
            rc_c2, out_c2 = sh("cargo test --offline -p polytune --lib")
            rc_c3, out_c3 = sh("cargo test --offline -p polytune --test protocol -- --skip eval_mixed_circuits --skip eval_garble_prg_3pc")
            ran.append(f"(c) clean+patch: cargo build -> {rc_c1}; --lib -> exit {rc_c2}; {summary(out_c2)}; --test protocol -> exit {rc_c3}; {summary(out_c3)}")
        ok &= rc_c1 == 0 and rc_c2 == 0 and rc_c3 == 0
        meta = {
            "property": sid.split("-")[0],
            "what": agent.get("what"),
            "needs": agent.get("needs"),
            "demo_cmd": demo_cmd,
            "confirmed": bool(ok),
            "ran": ran,
            "source": "fresh sub-agent given only the property text and a scratch worktree; confirmed by tools/confirm_seeds.py in /tmp/seedchk/wt (removed afterwards)",
        }
        if os.path.exists(os.path.join(d, "meta.json")):
            old = json.load(open(os.path.join(d, "meta.json")))
            for k in ("run_checks", "caught_by", "notes"):
                if k in old:
                    meta[k] = old[k]
        json.dump(meta, open(os.path.join(d, "meta.json"), "w"), indent=1)
        print(sid, "confirmed" if ok else "NOT CONFIRMED")
        for r in ran:
            print("   ", r[:300])
        sys.stdout.flush()
    subprocess.run(f"git -C /repo worktree remove --force {WT}", shell=True, capture_output=True)
    subprocess.run("git -C /repo worktree prune; rm -rf /tmp/seedchk", shell=True)


if __name__ == "__main__":
    main()
