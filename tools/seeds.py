#!/usr/bin/env python3
"""Run the checks against the seeded changes under /verif/seeded/<id>/patch.diff.

Each patch is applied to a scratch copy of /repo (never to /repo itself), the check of the
property it targets is run with VERIF_REPO pointing at that copy, and the outcome is written to
seeded/<id>/result.json.   usage: tools/seeds.py [id ...] [--tier quick|thorough]"""
import json
import os
import re
import shutil
import subprocess
import sys
import time

VERIF = os.path.dirname(os.path.dirname(os.path.abspath(__file__)))


def main():
    args = [a for a in sys.argv[1:] if not a.startswith("--")]
    tier = "quick"
    if "--tier" in sys.argv:
        tier = sys.argv[sys.argv.index("--tier") + 1]
    ids = args or sorted(os.listdir(os.path.join(VERIF, "seeded")))
    for sid in ids:
        d = os.path.join(VERIF, "seeded", sid)
        patch = os.path.join(d, "patch.diff")
        if not os.path.exists(patch):
            continue
        prop = sid.split("-")[0]
        meta = {}
        if os.path.exists(os.path.join(d, "meta.json")):
            meta = json.load(open(os.path.join(d, "meta.json")))
        props = meta.get("run_checks", [prop])
        copy = f"/var/tmp/polytune-seedrepo.{sid}"
        shutil.rmtree(copy, ignore_errors=True)
        subprocess.run(f"rsync -a --exclude target /repo/ {copy}/", shell=True, check=True)
        r = subprocess.run(["git", "apply", patch], cwd=copy, text=True, capture_output=True)
        if r.returncode != 0:
            print(f"{sid}: patch does not apply: {r.stderr[:300]}")
            shutil.rmtree(copy, ignore_errors=True)
            continue
        out = {}
        for p in props:
            t0 = time.time()
            env = dict(os.environ, VERIF_REPO=copy)
            pr = subprocess.run([os.path.join(VERIF, "check"), p, "--tier", tier, "--no-evidence"], cwd=VERIF, env=env, text=True, capture_output=True)
            lines = [l for l in pr.stdout.splitlines() if re.match(r"^(VIOLATION|KNOWN-FINDING|INCONCLUSIVE|\[C\d+|  harness=)", l)]
            out[p] = {"exit": pr.returncode, "wall_s": round(time.time() - t0), "lines": [l[:400] for l in lines]}
            print(f"{sid} / {p}: exit {pr.returncode} ({out[p]['wall_s']}s)")
            for l in lines:
                print("   " + l[:300])
        json.dump({"seed": sid, "tier": tier, "checks": out, "detected": any(v["exit"] == 1 for v in out.values())}, open(os.path.join(d, "result.json"), "w"), indent=1)
        shutil.rmtree(copy, ignore_errors=True)


if __name__ == "__main__":
    main()
