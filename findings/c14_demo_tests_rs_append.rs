// --- /verif demonstration (C14): an MPC message before scheduling / with an unknown sender
#[tokio::test]
async fn verif_c14_stray_mpc_msg_does_not_kill_the_state_machine() {
    let (out_tx, _out_rx) = mpsc::channel(4);
    let client = TestClient { cmd_senders: vec![], output: out_tx };
    let (state, handle) = PolicyState::new(client, Arc::new(Semaphore::new(1)));
    let jh = tokio::spawn(state.start());
    // no policy scheduled yet: any sender index is unknown
    let r = handle.mpc_msg(super::MpcMsg { from: 3, data: vec![1, 2, 3] }).await;
    assert!(r.is_err(), "stray message must be answered with an error");
    // the actor must still be alive and answer the next command
    let r2 = handle.mpc_msg(super::MpcMsg { from: 0, data: vec![] }).await;
    assert!(matches!(r2, Err(crate::handle::HandleError::PolicyStateError(_))), "state machine died: {r2:?}");
    assert!(!jh.is_finished(), "state machine task ended (panicked)");
}
