
// --- /verif demonstration (C15): a cancel that arrives after the MPC task has delivered the result
// but while it is still enqueuing Stop must not cause a second notification
#[tokio::test]
async fn verif_c15_cancel_after_the_result_was_delivered() {
    use std::ops::ControlFlow;
    let (out_tx, mut out_rx) = mpsc::channel(4);
    let client = TestClient { cmd_senders: vec![mpsc::channel(1).0], output: out_tx };
    let budget = Arc::new(Semaphore::new(1));
    let (mut state, handle) = PolicyState::new(client, budget.clone());
    let policy: Policy = serde_json::from_value(serde_json::json!({
        "computation_id": "d942cbff-899f-44a6-9891-f6c01bee0ff2",
        "participants": ["http://localhost:8000"],
        "program": "pub fn main(x: u8) -> u8 { x }",
        "leader": 0,
        "party": 0,
        "input": { "NumUnsigned": [7, "U8"] },
        "output": "http://localhost:8002/output",
        "constants": {}
    }))
    .unwrap();
    let (sched_tx, sched_rx) = oneshot::channel();
    let mut next = Some(PolicyCmd::Schedule(policy, sched_tx));
    loop {
        let cmd = match next.take() {
            Some(cmd) => cmd,
            None => state.cmd_rx.recv().await.expect("self-sent command"),
        };
        state = match state.handle_cmd(cmd).await {
            ControlFlow::Continue(state) => state,
            ControlFlow::Break(()) => panic!("state machine stopped before executing"),
        };
        if matches!(state.state_kind, super::PolicyStateKind::Executing { .. }) {
            break;
        }
    }
    sched_rx.await.unwrap().unwrap();
    // the actor is busy (we drive it by hand and do not take commands): its queue fills up with
    // commands of other callers, so the finished MPC task blocks on enqueuing Stop
    for _ in 0..10 {
        let (tx, _rx) = oneshot::channel();
        handle.0.send(PolicyCmd::MpcMsg(super::MpcMsg { from: 0, data: vec![] }, tx)).await.unwrap();
    }
    // let the MPC task run: it computes and delivers the result
    let first = tokio::time::timeout(std::time::Duration::from_secs(20), out_rx.recv()).await.expect("result delivered").unwrap();
    let _ = &first; // a single-party run ends with a preprocessing error: that IS the one notification
    tokio::time::sleep(std::time::Duration::from_millis(100)).await;
    // now the cancel command is processed
    let (cancel_tx, cancel_rx) = oneshot::channel();
    let flow = state.handle_cmd(PolicyCmd::Cancel(cancel_tx)).await;
    assert!(matches!(flow, ControlFlow::Break(())));
    cancel_rx.await.unwrap().expect("cancel returns Ok");
    tokio::time::sleep(std::time::Duration::from_millis(300)).await;
    let second = out_rx.try_recv();
    assert!(second.is_err(), "a second notification was sent to the output destination: {second:?}");
}
