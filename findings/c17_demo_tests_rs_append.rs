
// --- /verif demonstration (C17): a failed run / constants call must end the policy at the caller
// and return the leader's permit
#[derive(Clone)]
struct FlakyClient {
    inner: TestClient,
    fail_run: bool,
    fail_consts: bool,
}

impl PolicyClientBuilder for FlakyClient {
    type Client = Self;
    fn new_client(&self, _policy: &Policy) -> Self::Client {
        self.clone()
    }
}

#[derive(Debug, thiserror::Error)]
enum FlakyError {
    #[error("transient failure")]
    Transient,
    #[error(transparent)]
    Inner(#[from] Error),
}

impl PolicyClient for FlakyClient {
    type Error = FlakyError;
    async fn validate(&self, to: usize, req: super::ValidateRequest) -> Result<(), Self::Error> {
        Ok(self.inner.validate(to, req).await?)
    }
    async fn run(&self, to: usize, req: super::RunRequest) -> Result<(), Self::Error> {
        if self.fail_run {
            return Err(FlakyError::Transient);
        }
        Ok(self.inner.run(to, req).await?)
    }
    async fn consts(&self, to: usize, req: super::ConstsRequest) -> Result<(), Self::Error> {
        if self.fail_consts {
            return Err(FlakyError::Transient);
        }
        Ok(self.inner.consts(to, req).await?)
    }
    async fn msg(&self, to: usize, msg: super::MpcMsg) -> Result<(), Self::Error> {
        Ok(self.inner.msg(to, msg).await?)
    }
    async fn output(&self, to: url::Url, result: Result<Literal, OutputError>) -> Result<(), Self::Error> {
        Ok(self.inner.output(to, result).await?)
    }
}

async fn verif_c17_permit_returns(fail_run: bool, fail_consts: bool) {
    let cb = || {
        let mut senders = vec![];
        let mut receivers = vec![];
        let (out_tx, out_rx) = mpsc::channel(4);
        for _ in 0..2 {
            let (tx, rx) = mpsc::channel(1);
            senders.push(tx);
            receivers.push(rx);
        }
        (TestClient { cmd_senders: senders, output: out_tx }, receivers, out_rx)
    };
    let (cb0, mut receivers0, _out0) = cb();
    let (cb1, mut receivers1, _out1) = cb();
    let leader_budget = Arc::new(Semaphore::new(1));
    let (state0, handle0) = PolicyState::new(FlakyClient { inner: cb0, fail_run, fail_consts }, leader_budget.clone());
    let (state1, handle1) = PolicyState::new(cb1, Arc::new(Semaphore::new(1)));
    tokio::spawn(state0.start());
    tokio::spawn(state1.start());
    let handle0_cl = handle0.clone();
    let handle1_cl = handle1.clone();
    tokio::spawn(async move {
        while let Some(cmd) = receivers0[1].recv().await {
            if handle1_cl.0.send(cmd).await.is_err() { break }
        }
    });
    tokio::spawn(async move {
        while let Some(cmd) = receivers1[0].recv().await {
            if handle0_cl.0.send(cmd).await.is_err() { break }
        }
    });
    let mut pol0: Policy = serde_json::from_str(&fs::read_to_string("policies/policy0.json").unwrap()).unwrap();
    let pol1: Policy = serde_json::from_str(&fs::read_to_string("policies/policy1.json").unwrap()).unwrap();
    // leader without output destination
    pol0.output = None;
    let (r0, r1) = tokio::join!(handle0.schedule(pol0), handle1.schedule(pol1));
    r0.unwrap();
    r1.unwrap();
    // the policy cannot complete; it must end at the leader and give the permit back
    let mut returned = false;
    for _ in 0..100 {
        if leader_budget.available_permits() == 1 {
            returned = true;
            break;
        }
        tokio::time::sleep(std::time::Duration::from_millis(50)).await;
    }
    assert!(returned, "the leader's concurrency permit is still taken 5 s after the failed call");
}

#[tokio::test]
async fn verif_c17_failed_run_call_returns_the_permit() {
    verif_c17_permit_returns(true, false).await
}

#[tokio::test]
async fn verif_c17_failed_consts_call_returns_the_permit() {
    verif_c17_permit_returns(false, true).await
}
