
// --- /verif demonstration (C14): a rejected duplicate schedule must not disturb the running computation
#[tokio::test]
async fn verif_c14_rejected_duplicate_schedule_does_not_disturb_the_computation() {
    let cb = || {
        let mut senders = vec![];
        let mut receivers = vec![];
        let (out_tx, out_rx) = mpsc::channel(1);
        for _ in 0..2 {
            let (tx, rx) = mpsc::channel(1);
            senders.push(tx);
            receivers.push(rx);
        }
        (TestClient { cmd_senders: senders, output: out_tx }, receivers, out_rx)
    };
    let (cb0, mut receivers0, mut out_rx) = cb();
    let (cb1, mut receivers1, _) = cb();
    let concurrency = Arc::new(Semaphore::new(2));
    let (state0, handle0) = PolicyState::new(cb0, concurrency.clone());
    let (state1, handle1) = PolicyState::new(cb1, concurrency);
    tokio::spawn(state0.start());
    tokio::spawn(state1.start());
    let handle0_cl = handle0.clone();
    let handle1_cl = handle1.clone();
    tokio::spawn(async move {
        while let Some(cmd) = receivers0[1].recv().await {
            if handle1_cl.0.send(cmd).await.is_err() { break }
        }
    });
    tokio::spawn(async move {
        while let Some(cmd) = receivers1[0].recv().await {
            if handle0_cl.0.send(cmd).await.is_err() { break }
        }
    });
    let pol0: Policy = serde_json::from_str(&fs::read_to_string("policies/policy0.json").unwrap()).unwrap();
    let pol1: Policy = serde_json::from_str(&fs::read_to_string("policies/policy1.json").unwrap()).unwrap();
    let sched0 = handle0.schedule(pol0);
    let sched1 = handle1.schedule(pol1.clone());
    tokio::try_join!(sched0, sched1).unwrap();
    // the computation is under way; the follower receives duplicates of its schedule call
    let dup = tokio::spawn(async move {
        let mut rejected = 0;
        for _ in 0..20 {
            match handle1.schedule(pol1.clone()).await {
                Err(crate::handle::HandleError::PolicyStateError(_)) => rejected += 1,
                Err(_) => break, // state machine has finished
                Ok(()) => panic!("duplicate schedule accepted"),
            }
            tokio::task::yield_now().await;
        }
        rejected
    });
    let out = tokio::time::timeout(std::time::Duration::from_secs(20), out_rx.recv()).await;
    let rejected = dup.await.unwrap();
    assert!(rejected > 0, "no duplicate was processed while the policy was live");
    let out = out.expect("computation did not finish: the rejected duplicate schedule disturbed it");
    out.unwrap().unwrap();
}
