
// --- /verif demonstration (C15): a cancel that is processed right after the MPC task was spawned
// (before that task has been polled) must still cancel the run and notify the output destination
#[tokio::test]
async fn verif_c15_cancel_right_after_the_mpc_task_is_spawned() {
    use std::ops::ControlFlow;
    let (out_tx, mut out_rx) = mpsc::channel(4);
    // single-party computation: no peer is ever contacted
    let client = TestClient { cmd_senders: vec![mpsc::channel(1).0], output: out_tx };
    let budget = Arc::new(Semaphore::new(1));
    let (mut state, _handle) = PolicyState::new(client, budget.clone());
    let policy: Policy = serde_json::from_value(serde_json::json!({
        "computation_id": "d942cbff-899f-44a6-9891-f6c01bee0ff2",
        "participants": ["http://localhost:8000"],
        "program": "pub fn main(x: u8) -> u8 { x }",
        "leader": 0,
        "party": 0,
        "input": { "NumUnsigned": [7, "U8"] },
        "output": "http://localhost:8002/output",
        "constants": {}
    }))
    .unwrap();
    let (sched_tx, sched_rx) = oneshot::channel();
    // drive the actor by hand (current-thread runtime): one command at a time, no yield to other
    // tasks in between except where a handler itself awaits
    let mut next = Some(PolicyCmd::Schedule(policy, sched_tx));
    loop {
        let cmd = match next.take() {
            Some(cmd) => cmd,
            None => state.cmd_rx.recv().await.expect("self-sent command"),
        };
        state = match state.handle_cmd(cmd).await {
            ControlFlow::Continue(state) => state,
            ControlFlow::Break(()) => panic!("state machine stopped before executing"),
        };
        if matches!(state.state_kind, super::PolicyStateKind::Executing { .. }) {
            break;
        }
    }
    sched_rx.await.unwrap().unwrap();
    // the MPC task exists but has not been polled yet; the next command is a cancel
    let (cancel_tx, cancel_rx) = oneshot::channel();
    let flow = state.handle_cmd(PolicyCmd::Cancel(cancel_tx)).await;
    assert!(matches!(flow, ControlFlow::Break(())));
    cancel_rx.await.unwrap().expect("cancel returns Ok");
    // cancel returned Ok: the destination must have been sent exactly one notification by now
    // (Cancelled, or the real result if the run had already finished)
    let first = out_rx.try_recv();
    assert!(first.is_ok(), "cancel() returned Ok but nothing was sent to the output destination");
    tokio::time::sleep(std::time::Duration::from_millis(300)).await;
    assert!(out_rx.try_recv().is_err(), "something was sent to the output destination after cancel() returned");
    assert_eq!(budget.available_permits(), 1, "permit not returned");
}
