
// --- /verif demonstration (C14): constants from a party index that does not exist are refused
#[tokio::test]
async fn verif_c14_consts_from_an_unknown_party_are_refused() {
    use std::ops::ControlFlow;
    let (out_tx, _out_rx) = mpsc::channel(4);
    let client = TestClient { cmd_senders: vec![mpsc::channel(1).0, mpsc::channel(1).0], output: out_tx };
    let (mut state, _handle) = PolicyState::new(client, Arc::new(Semaphore::new(1)));
    // follower (party 1) of the two-party test policy
    let pol1: Policy = serde_json::from_str(&fs::read_to_string("policies/policy1.json").unwrap()).unwrap();
    let validate = super::ValidateRequest::from(&pol1);
    let computation_id = pol1.computation_id;
    let (sched_tx, sched_rx) = oneshot::channel();
    let (val_tx, val_rx) = oneshot::channel();
    for cmd in [PolicyCmd::Schedule(pol1, sched_tx), PolicyCmd::Validate(validate, val_tx)] {
        state = match state.handle_cmd(cmd).await {
            ControlFlow::Continue(state) => state,
            ControlFlow::Break(()) => panic!("state machine stopped"),
        };
    }
    sched_rx.await.unwrap().unwrap();
    val_rx.await.unwrap().unwrap();
    assert!(matches!(state.state_kind, super::PolicyStateKind::Validated { .. }));
    // a stray request: constants "from party 7" of a two-party computation
    let mut consts = super::Consts::new();
    consts.insert("ROWS".to_string(), Literal::NumUnsigned(4, garble_lang::token::UnsignedNumType::Usize));
    let (ret_tx, ret_rx) = oneshot::channel();
    let stray = super::ConstsRequest { from: 7, computation_id, consts };
    state = match state.handle_cmd(PolicyCmd::Consts(stray, ret_tx)).await {
        ControlFlow::Continue(state) => state,
        ControlFlow::Break(()) => panic!("state machine stopped"),
    };
    let answer = ret_rx.await.unwrap();
    assert!(answer.is_err(), "constants from party index 7 of a 2-party computation were accepted");
    assert!(state.consts.is_empty(), "the stray constants were stored: {:?}", state.consts.keys());
}
