use polytune::garble_lang::register_circuit::{Circuit, Inst, Input, Not, Op, Reg, Xor};
use polytune::{channel::SimpleChannel, mpc};

fn circ_ok() -> Circuit {
    Circuit {
        input_regs: vec![1, 1],
        insts: vec![
            Inst { out: Reg(0), op: Op::Input(Input { party: 0, input: 0 }) },
            Inst { out: Reg(1), op: Op::Input(Input { party: 1, input: 0 }) },
            Inst { out: Reg(2), op: Op::Xor(Xor(Reg(0), Reg(1))) },
        ],
        max_reg_count: 3,
        output_regs: vec![Reg(2)],
        and_ops: 0,
    }
}

// returns Err *immediately* iff validate rejects p_eval; otherwise the party blocks in the
// first receive (no peer is running) and we time out.
#[tokio::test]
async fn p_eval_out_of_range_is_rejected_up_front() {
    let mut chans = SimpleChannel::channels(2);
    let ch = chans.remove(0);
    let c = circ_ok();
    let fut = mpc(&ch, &c, &[true], 1usize << 63, 0, &[0], None);
    let r = tokio::time::timeout(std::time::Duration::from_secs(3), fut).await;
    match r {
        Ok(Err(_)) => {}
        Ok(Ok(_)) => panic!("returned Ok"),
        Err(_) => panic!("mpc() started the protocol although p_eval is not a party"),
    }
}

#[tokio::test]
async fn max_reg_count_zero_does_not_panic() {
    let mut chans = SimpleChannel::channels(2);
    let ch = chans.remove(0);
    let c = Circuit {
        input_regs: vec![1, 1],
        insts: vec![Inst { out: Reg(0), op: Op::Not(Not(Reg(0))) }],
        max_reg_count: 0,
        output_regs: vec![Reg(0)],
        and_ops: 0,
    };
    let r = mpc(&ch, &c, &[true], 0, 0, &[0], None).await;
    assert!(r.is_err());
}
